//! C16 — replay of `CairoCpu` behaviours (TLC `REPLAY` lines, kind "step") against the real
//! `cairo-lang-casm` assembler/encoder and the real `cairo-vm` decoder + `step_instruction`.
//!
//! usage: c16_replay <cases.ndjson> <out.ndjson>
//! Output: one summary line {"summary":…} and one line per mismatch.
use std::collections::BTreeMap;

use cairo_lang_casm::assembler::{ApUpdate, FpUpdate, Op1Addr, Opcode, OpcodeExtension, PcUpdate, Res};
use cairo_lang_casm::instructions::{
    AddApInstruction, AssertEqInstruction, Blake2sCompressInstruction, CallInstruction, Instruction,
    InstructionBody, JnzInstruction, JumpInstruction, RetInstruction,
};
use cairo_lang_casm::operand::{
    BinOpOperand, CellRef, DerefOrImmediate, Operation, Register, ResOperand,
};
use cairo_vm::Felt252;
use cairo_vm::hint_processor::builtin_hint_processor::blake2s_hash::blake2s_compress;
use cairo_vm::types::relocatable::{MaybeRelocatable, Relocatable};
use cairo_vm::vm::vm_core::VirtualMachine;
use cvh::util::{NdjsonWriter, read_ndjson};
use num_bigint::BigInt;
use num_traits::{Num, One};
use serde_json::{Value, json};

fn prime() -> BigInt {
    BigInt::from_str_radix("800000000000011000000000000000000000000000000000000000000000001", 16).unwrap()
}

fn reg(v: &Value) -> Register {
    match v.as_str().unwrap() {
        "ap" => Register::AP,
        "fp" => Register::FP,
        x => panic!("reg {x}"),
    }
}
fn cellref(v: &Value) -> CellRef {
    CellRef { register: reg(&v["reg"]), offset: v["off"].as_i64().unwrap() as i16 }
}

/// felt value a*BIG + c as a (possibly negative) BigInt; `neg_as_p` renders negatives as P + c.
fn felt_big(v: &Value, big: &BigInt, neg_as_p: bool) -> BigInt {
    let a = BigInt::from(v["a"].as_i64().unwrap());
    let c = BigInt::from(v["c"].as_i64().unwrap());
    let x = a * big + c;
    if neg_as_p && x < BigInt::from(0) { x + prime() } else { x }
}
fn to_felt(x: &BigInt) -> Felt252 {
    Felt252::from(x.clone())
}
fn value(v: &Value, big: &BigInt) -> Option<MaybeRelocatable> {
    match v["t"].as_str().unwrap() {
        "i" => Some(MaybeRelocatable::Int(to_felt(&felt_big(v, big, false)))),
        "p" => Some(MaybeRelocatable::RelocatableValue(Relocatable::from((
            v["seg"].as_i64().unwrap() as isize,
            v["off"].as_i64().unwrap() as usize,
        )))),
        "none" => None,
        t => panic!("value tag {t}"),
    }
}
fn addr(v: &Value) -> Relocatable {
    Relocatable::from((v[0].as_i64().unwrap() as isize, v[1].as_i64().unwrap() as usize))
}

fn doi(b: &Value, big: &BigInt, neg_as_p: bool) -> DerefOrImmediate {
    match b["k"].as_str().unwrap() {
        "deref" => DerefOrImmediate::Deref(cellref(&b["c"])),
        "imm" => DerefOrImmediate::Immediate(felt_big(&b["imm"], big, neg_as_p).into()),
        k => panic!("doi {k}"),
    }
}
fn res_operand(b: &Value, big: &BigInt, neg_as_p: bool) -> ResOperand {
    match b["k"].as_str().unwrap() {
        "deref" => ResOperand::Deref(cellref(&b["c"])),
        "dderef" => ResOperand::DoubleDeref(cellref(&b["c"]), b["off2"].as_i64().unwrap() as i16),
        "imm" => ResOperand::Immediate(felt_big(&b["imm"], big, neg_as_p).into()),
        "binop" => ResOperand::BinOp(BinOpOperand {
            op: if b["op"] == "add" { Operation::Add } else { Operation::Mul },
            a: cellref(&b["c"]),
            b: if b["bk"] == "imm" {
                DerefOrImmediate::Immediate(felt_big(&b["imm"], big, neg_as_p).into())
            } else {
                DerefOrImmediate::Deref(cellref(&b["bc"]))
            },
        }),
        k => panic!("res operand {k}"),
    }
}

fn build_instr(i: &Value, big: &BigInt, neg_as_p: bool) -> Instruction {
    let b = &i["b"];
    let body = match i["body"].as_str().unwrap() {
        "addap" => InstructionBody::AddAp(AddApInstruction { operand: res_operand(b, big, neg_as_p) }),
        "asserteq" => InstructionBody::AssertEq(AssertEqInstruction {
            a: cellref(&i["a"]),
            b: res_operand(b, big, neg_as_p),
        }),
        "qm31" => InstructionBody::QM31AssertEq(AssertEqInstruction {
            a: cellref(&i["a"]),
            b: res_operand(b, big, neg_as_p),
        }),
        "call" => InstructionBody::Call(CallInstruction {
            target: doi(b, big, neg_as_p),
            relative: i["rel"].as_bool().unwrap(),
        }),
        "jump" => InstructionBody::Jump(JumpInstruction {
            target: doi(b, big, neg_as_p),
            relative: i["rel"].as_bool().unwrap(),
        }),
        "jnz" => InstructionBody::Jnz(JnzInstruction {
            jump_offset: doi(b, big, neg_as_p),
            condition: cellref(&i["a"]),
        }),
        "ret" => InstructionBody::Ret(RetInstruction {}),
        "blake" => InstructionBody::Blake2sCompress(Blake2sCompressInstruction {
            state: cellref(&i["st"]),
            byte_count: cellref(&i["a"]),
            message: cellref(&i["msg"]),
            finalize: i["fin"].as_bool().unwrap(),
        }),
        x => panic!("body {x}"),
    };
    Instruction::new(body, i["incap"].as_bool().unwrap())
}

fn reg_name(r: Register) -> &'static str {
    match r {
        Register::AP => "ap",
        Register::FP => "fp",
    }
}

/// Compare `Instruction::assemble()` with the spec's `Assemble` record; returns drift messages.
fn assemble_drift(ins: &Instruction, asm: &Value, big: &BigInt, neg_as_p: bool) -> Vec<String> {
    let r = ins.assemble();
    let mut d = vec![];
    let mut chk = |name: &str, got: String, want: String| {
        if got != want {
            d.push(format!("{name}: code={got} spec={want}"));
        }
    };
    chk("off0", r.off0.to_string(), asm["off0"].to_string());
    chk("off1", r.off1.to_string(), asm["off1"].to_string());
    chk("off2", r.off2.to_string(), asm["off2"].to_string());
    chk("dst_register", reg_name(r.dst_register).into(), asm["dstreg"].as_str().unwrap().into());
    chk("op0_register", reg_name(r.op0_register).into(), asm["op0reg"].as_str().unwrap().into());
    chk(
        "op1_addr",
        match r.op1_addr {
            Op1Addr::Imm => "Imm",
            Op1Addr::AP => "AP",
            Op1Addr::FP => "FP",
            Op1Addr::Op0 => "Op0",
        }
        .into(),
        asm["op1"].as_str().unwrap().into(),
    );
    chk(
        "res",
        match r.res {
            Res::Op1 => "Op1",
            Res::Add => "Add",
            Res::Mul => "Mul",
            Res::Unconstrained => "Unconstrained",
        }
        .into(),
        asm["res"].as_str().unwrap().into(),
    );
    chk(
        "pc_update",
        match r.pc_update {
            PcUpdate::Regular => "Regular",
            PcUpdate::Jump => "Jump",
            PcUpdate::JumpRel => "JumpRel",
            PcUpdate::Jnz => "Jnz",
        }
        .into(),
        asm["pcu"].as_str().unwrap().into(),
    );
    chk(
        "ap_update",
        match r.ap_update {
            ApUpdate::Regular => "Regular",
            ApUpdate::Add => "Add",
            ApUpdate::Add1 => "Add1",
            ApUpdate::Add2 => "Add2",
        }
        .into(),
        asm["apu"].as_str().unwrap().into(),
    );
    chk(
        "fp_update",
        match r.fp_update {
            FpUpdate::Regular => "Regular",
            FpUpdate::ApPlus2 => "ApPlus2",
            FpUpdate::Dst => "Dst",
        }
        .into(),
        asm["fpu"].as_str().unwrap().into(),
    );
    chk(
        "opcode",
        match r.opcode {
            Opcode::Nop => "Nop",
            Opcode::AssertEq => "AssertEq",
            Opcode::Call => "Call",
            Opcode::Ret => "Ret",
        }
        .into(),
        asm["opc"].as_str().unwrap().into(),
    );
    chk(
        "opcode_extension",
        match r.opcode_extension {
            OpcodeExtension::Stone => "Stone",
            OpcodeExtension::Blake2s => "Blake2s",
            OpcodeExtension::Blake2sFinalize => "Blake2sFinalize",
            OpcodeExtension::QM31 => "QM31",
        }
        .into(),
        asm["ext"].as_str().unwrap().into(),
    );
    let want_imm = if asm["imm"]["t"] == "none" { None } else { Some(felt_big(&asm["imm"], big, neg_as_p)) };
    if r.imm != want_imm {
        d.push(format!("imm: code={:?} spec={:?}", r.imm, want_imm));
    }
    d
}

/// Compare the first encoded word with the spec's `Bits` record.
fn bits_drift(words: &[BigInt], bits: &Value) -> Vec<String> {
    let mut flags: u64 = 0;
    for b in bits["flags"].as_array().unwrap() {
        flags |= 1 << b.as_u64().unwrap();
    }
    let w = BigInt::from(bits["o0"].as_u64().unwrap())
        + (BigInt::from(bits["o1"].as_u64().unwrap()) << 16)
        + (BigInt::from(bits["o2"].as_u64().unwrap()) << 32)
        + (BigInt::from(flags) << 48)
        + (BigInt::from(bits["ext"].as_u64().unwrap()) << 63);
    if words[0] != w { vec![format!("word0: code={:#x} spec={:#x}", words[0], w)] } else { vec![] }
}

struct Outcome {
    mism: Vec<String>,
    drift: Vec<String>,
    size_violation: Option<String>,
    skipped: Option<&'static str>,
}

fn run_case(case: &Value, big: &BigInt, neg_as_p: bool) -> Outcome {
    let mut out = Outcome { mism: vec![], drift: vec![], size_violation: None, skipped: None };
    let post = &case["post"];
    let ins = build_instr(&case["instr"], big, neg_as_p);
    out.drift.extend(assemble_drift(&ins, &case["asm"], big, neg_as_p));
    let words = ins.assemble().encode();
    out.drift.extend(bits_drift(&words, &case["bits"]));
    // Size: real op_size vs. real encoding length (alarm), spec size vs. real (drift).
    let op_size = ins.body.op_size();
    if words.len() != op_size {
        out.size_violation = Some(format!("encode() has {} words but op_size() = {}", words.len(), op_size));
    }
    if case["size"].as_u64().unwrap() as usize != op_size {
        out.drift.push(format!("op_size: code={} spec={}", op_size, case["size"]));
    }
    if post.get("oom").is_some() {
        out.skipped = Some("out_of_model");
        return out;
    }

    // Build the VM state.
    let pre = &case["pre"];
    let mut vm = VirtualMachine::new(false, false);
    for _ in 0..8 {
        vm.segments.add();
    }
    let pc = addr(&pre["pc"]);
    let ap = pre["ap"].as_u64().unwrap() as usize;
    let fp = pre["fp"].as_u64().unwrap() as usize;
    let mut known: BTreeMap<(isize, usize), Option<MaybeRelocatable>> = BTreeMap::new();
    for cell in pre["mem"].as_array().unwrap() {
        let a = addr(&cell[0]);
        known.insert((a.segment_index, a.offset), value(&cell[1], big));
    }
    // Blake: when the spec says the step succeeds, the operand arrays must exist.  Fill
    // them with distinct u32 values unless they overlap cells the case itself constrains.
    let mut blake_expect: Option<(Relocatable, [u32; 8])> = None;
    if post["ok"] == true && !post["blake"].as_array().unwrap().is_empty() {
        let bl = &post["blake"][0];
        let st = match value(&bl["st"], big).unwrap() {
            MaybeRelocatable::RelocatableValue(r) => r,
            _ => unreachable!(),
        };
        let msg = match value(&bl["msg"], big).unwrap() {
            MaybeRelocatable::RelocatableValue(r) => r,
            _ => unreachable!(),
        };
        let outp = match value(&bl["out"], big).unwrap() {
            MaybeRelocatable::RelocatableValue(r) => r,
            _ => unreachable!(),
        };
        // array contents are a function of the address, so overlapping state / message arrays agree
        let val_at = |a: Relocatable| -> u32 { 0x1000_0000u32 + (a.segment_index as u32) * 0x10000 + (a.offset as u32) * 17 };
        let mut need: Vec<Relocatable> = vec![];
        for k in 0..8usize {
            need.push((st + k).unwrap());
        }
        for k in 0..16usize {
            need.push((msg + k).unwrap());
        }
        let mut fill: BTreeMap<(isize, usize), u32> = BTreeMap::new();
        for a in &need {
            let key = (a.segment_index, a.offset);
            if known.contains_key(&key) || (a.segment_index == pc.segment_index && (a.offset == pc.offset)) {
                out.skipped = Some("blake_array_overlaps_case_cells");
                return out;
            }
            fill.insert(key, val_at(*a));
        }
        for k in 0..8usize {
            let a = (outp + k).unwrap();
            let key = (a.segment_index, a.offset);
            if known.contains_key(&key) || fill.contains_key(&key) {
                out.skipped = Some("blake_output_overlaps");
                return out;
            }
        }
        let get = |a: Relocatable| fill[&(a.segment_index, a.offset)];
        let mut state = [0u32; 8];
        let mut message = [0u32; 16];
        for k in 0..8 {
            state[k] = get((st + k).unwrap());
        }
        for k in 0..16 {
            message[k] = get((msg + k).unwrap());
        }
        let cnt = bl["cnt"].as_u64().unwrap() as u32;
        let f0 = if bl["fin"].as_bool().unwrap() { 0xffff_ffff } else { 0 };
        let expect = blake2s_compress(&state, &message, cnt, 0, f0, 0);
        blake_expect = Some((outp, expect.try_into().unwrap()));
        for ((s, o), v) in fill {
            vm.segments.memory.insert(Relocatable::from((s, o)), MaybeRelocatable::Int(Felt252::from(v))).unwrap();
        }
    }
    for ((s, o), v) in &known {
        if let Some(v) = v {
            if vm.segments.memory.insert(Relocatable::from((*s, *o)), v.clone()).is_err() {
                out.skipped = Some("pre_state_insert_conflict");
                return out;
            }
        }
    }
    // Code words at pc.
    for (k, w) in words.iter().enumerate() {
        if vm
            .segments
            .memory
            .insert((pc + k).unwrap(), MaybeRelocatable::Int(to_felt(w)))
            .is_err()
        {
            out.skipped = Some("code_overlaps_case_cells");
            return out;
        }
    }
    vm.set_pc(pc);
    vm.set_ap(ap);
    vm.set_fp(fp);
    let r = vm.step_instruction();
    let spec_ok = post["ok"] == true;
    match (&r, spec_ok) {
        (Err(e), true) => out.mism.push(format!("spec: step succeeds; VM failed: {e}")),
        (Ok(()), false) => out.mism.push(format!(
            "spec: step fails; VM succeeded (pc={} ap={} fp={})",
            vm.get_pc(),
            vm.get_ap().offset,
            vm.get_fp().offset
        )),
        (Err(_), false) => {}
        (Ok(()), true) => {
            let want_pc = addr(&post["pc"]);
            if vm.get_pc() != want_pc {
                out.mism.push(format!("pc: vm={} spec={}", vm.get_pc(), want_pc));
            }
            if vm.get_ap().offset as u64 != post["ap"].as_u64().unwrap() {
                out.mism.push(format!("ap: vm={} spec={}", vm.get_ap().offset, post["ap"]));
            }
            if vm.get_fp().offset as u64 != post["fp"].as_u64().unwrap() {
                out.mism.push(format!("fp: vm={} spec={}", vm.get_fp().offset, post["fp"]));
            }
            let mut written: BTreeMap<(isize, usize), MaybeRelocatable> = BTreeMap::new();
            for w in post["writes"].as_array().unwrap() {
                let a = addr(&w[0]);
                written.insert((a.segment_index, a.offset), value(&w[1], big).unwrap());
            }
            for (key, v) in &written {
                let got = vm.get_maybe(&Relocatable::from(*key));
                if got.as_ref() != Some(v) {
                    out.mism.push(format!("cell {key:?}: vm={got:?} spec={v:?}"));
                }
            }
            for (key, v) in &known {
                if v.is_none() && !written.contains_key(key) {
                    if let Some(got) = vm.get_maybe(&Relocatable::from(*key)) {
                        out.mism.push(format!("cell {key:?}: vm wrote {got:?}, spec leaves it unknown"));
                    }
                }
            }
            if let Some((outp, expect)) = blake_expect {
                for k in 0..8usize {
                    let got = vm.get_maybe(&(outp + k).unwrap());
                    let want = MaybeRelocatable::Int(Felt252::from(expect[k]));
                    if got.as_ref() != Some(&want) {
                        out.mism.push(format!("blake out[{k}]: vm={got:?} want={want:?}"));
                    }
                }
            }
        }
    }
    out
}

fn main() {
    let args: Vec<String> = std::env::args().collect();
    let cases = read_ndjson(&args[1]);
    let mut w = NdjsonWriter::create(&args[2]);
    let bigs: Vec<(String, BigInt)> = vec![
        ("2^64".into(), BigInt::one() << 64),
        ("2^128".into(), BigInt::one() << 128),
        ("2^250".into(), BigInt::one() << 250),
    ];
    let (mut n_cases, mut n_runs, mut n_skipped, mut n_mism, mut n_drift, mut n_size, mut n_ok_steps, mut n_fail_steps) =
        (0u64, 0u64, 0u64, 0u64, 0u64, 0u64, 0u64, 0u64);
    let mut shapes: std::collections::BTreeSet<String> = Default::default();
    let mut skipped_by: BTreeMap<&'static str, u64> = BTreeMap::new();
    for case in &cases {
        if case["k"] != "step" {
            continue;
        }
        n_cases += 1;
        let s = case.to_string();
        let uses_big = s.contains("\"a\":1") || s.contains("\"a\":-1") || s.contains("\"a\":2");
        let has_neg = s.contains("\"c\":-");
        let i = &case["instr"];
        shapes.insert(format!(
            "{}/{}/{}/{}/{}/{}",
            i["body"], i["b"]["k"], i["b"]["bk"], i["b"]["op"], i["incap"], i["rel"]
        ));
        let big_list: &[(String, BigInt)] = if uses_big { &bigs } else { &bigs[..1] };
        for (bname, big) in big_list {
            for neg_as_p in if has_neg { vec![false, true] } else { vec![false] } {
                n_runs += 1;
                let o = run_case(case, big, neg_as_p);
                if let Some(why) = o.skipped {
                    n_skipped += 1;
                    *skipped_by.entry(why).or_default() += 1;
                }
                if case["post"]["ok"] == true { n_ok_steps += 1 } else { n_fail_steps += 1 }
                if !o.drift.is_empty() {
                    n_drift += 1;
                    if n_drift <= 20 {
                        w.write(&json!({"kind":"drift","big":bname,"neg_as_p":neg_as_p,"detail":o.drift,"case":case}));
                    }
                }
                if let Some(sv) = &o.size_violation {
                    n_size += 1;
                    if n_size <= 20 {
                        w.write(&json!({"kind":"size","big":bname,"neg_as_p":neg_as_p,"detail":[sv],"case":case}));
                    }
                }
                if !o.mism.is_empty() {
                    n_mism += 1;
                    if n_mism <= 20 {
                        w.write(&json!({"kind":"behaviour","big":bname,"neg_as_p":neg_as_p,"detail":o.mism,"case":case}));
                    }
                }
            }
        }
    }
    w.write(&json!({"summary": {
        "cases": n_cases, "vm_runs": n_runs, "skipped": n_skipped, "skipped_by": skipped_by,
        "behaviour_mismatches": n_mism, "size_violations": n_size, "encoding_drift": n_drift,
        "distinct_shapes": shapes.len(), "spec_ok_steps": n_ok_steps, "spec_fail_steps": n_fail_steps,
    }}));
    w.finish();
    println!(
        "c16_replay: cases={n_cases} vm_runs={n_runs} skipped={n_skipped} mismatches={n_mism} size={n_size} drift={n_drift} shapes={}",
        shapes.len()
    );
}

//! C11 — formatter conformance harness.
//!
//! usage:
//!   fmt_check corpus <out.ndjson>
//!       lists every source of the corpus that parses without diagnostics (whole `.cairo` files and
//!       code sections of tagged test files), de-duplicated by content.
//!   fmt_check run <plan.ndjson> <outdir> [batch_elems [skip [take]]]
//!       for every plan line {id, src, cfg}: obtain the text (render a FormatGeometry case / read a
//!       corpus source / apply a seeded layout mutation), parse it with `SimpleParserDatabase`, skip
//!       it when the input has parser diagnostics, format it with the real `get_formatted_file`,
//!       re-parse, re-format, and record the element streams of input and output as one line of
//!       `<outdir>/trace_<k>.ndjson` (validated by `FormatStreamTrace.tla`); `<outdir>/info.ndjson`
//!       has one line per plan line (status, idem, parse_ok, sizes; texts when something is off).
//!   fmt_check show <plan-line.json>
//!       prints {text, out1, out2, idem, parse_ok, trace} for a single plan line (replay files).
#[path = "../fmtstream.rs"]
mod fmtstream;

use std::collections::HashSet;
use std::io::Write;
use std::path::{Path, PathBuf};

use cvh::util::{NdjsonWriter, repo_root};
use fmtstream::*;
use rayon::prelude::*;
use serde_json::{Value, json};

fn sha(s: &str) -> String {
    // FNV-1a 64 twice with different offsets: a stable content key (not cryptographic).
    let mut h1: u64 = 0xcbf29ce484222325;
    let mut h2: u64 = 0x84222325cbf29ce4;
    for b in s.bytes() {
        h1 = (h1 ^ b as u64).wrapping_mul(0x100000001b3);
        h2 = (h2 ^ (b as u64).wrapping_add(0x9e)).wrapping_mul(0x100000001b3);
    }
    format!("{h1:016x}{h2:016x}")
}

fn walk_dir(dir: &Path, out: &mut Vec<PathBuf>) {
    let Ok(rd) = std::fs::read_dir(dir) else { return };
    let mut entries: Vec<_> = rd.filter_map(|e| e.ok()).collect();
    entries.sort_by_key(|e| e.file_name());
    for e in entries {
        let p = e.path();
        let name = e.file_name().to_string_lossy().to_string();
        if p.is_dir() {
            if name == "target" || name == ".git" || name == "node_modules" {
                continue;
            }
            walk_dir(&p, out);
        } else {
            out.push(p);
        }
    }
}

fn source_text(src: &Value) -> Option<String> {
    let root = repo_root();
    match src["k"].as_str()? {
        "text" => Some(src["text"].as_str()?.to_string()),
        "file" => {
            let p = Path::new(&root).join(src["path"].as_str()?);
            let content = std::fs::read_to_string(p).ok()?;
            let base = match src.get("sec").and_then(|s| s.as_u64()) {
                Some(i) => tagged_sections(&content).into_iter().nth(i as usize)?.1,
                None => content,
            };
            match src.get("mut") {
                Some(m) if !m.is_null() => mutate(&base, m["op"].as_str()?, m["seed"].as_u64()?),
                _ => Some(base),
            }
        }
        _ => None,
    }
}

fn case_text(line: &Value) -> Option<String> {
    let src = &line["src"];
    if src["k"].as_str() == Some("geom") {
        render_geometry(&src["g"], &line["cfg"])
    } else {
        source_text(src)
    }
}

fn cmd_corpus(out: &str) {
    let root = repo_root();
    let mut files = vec![];
    for sub in ["corelib", "examples", "tests", "crates"] {
        walk_dir(&Path::new(&root).join(sub), &mut files);
    }
    let cands: Vec<(String, Option<usize>, String, String)> = files
        .par_iter()
        .flat_map(|p| {
            let rel = p.strip_prefix(&root).unwrap().to_string_lossy().to_string();
            let Ok(content) = std::fs::read_to_string(p) else { return vec![] };
            let mut v = vec![];
            if rel.ends_with(".cairo") {
                if !content.trim().is_empty() && parses_clean(&content) {
                    v.push((rel.clone(), None, "file".to_string(), content.clone()));
                }
            }
            if content.contains("//! > test_runner_name") || content.contains("//! > cairo_code") {
                for (i, (tag, body)) in tagged_sections(&content).into_iter().enumerate() {
                    if CODE_TAGS.contains(&tag.as_str()) && !body.trim().is_empty() && parses_clean(&body) {
                        v.push((rel.clone(), Some(i), tag, body));
                    }
                }
            }
            v
        })
        .collect();
    let mut seen = HashSet::new();
    let mut w = NdjsonWriter::create(out);
    let mut n = 0;
    for (rel, sec, tag, body) in cands {
        let h = sha(&body);
        if !seen.insert(h.clone()) {
            continue;
        }
        let mut v = json!({"k": "file", "path": rel, "tag": tag, "bytes": body.len(), "sha": h});
        if let Some(i) = sec {
            v["sec"] = json!(i);
        }
        w.write(&v);
        n += 1;
    }
    w.finish();
    println!("{}", json!({"corpus_sources": n}));
}

struct Done {
    info: Value,
    trace: Option<String>,
    /// content key of the trace record without its id (equal records need one validation)
    trace_key: String,
    n_elems: usize,
}

/// A raw `FormatGeometry` REPLAY line (no `src`) becomes the plan line {id: "g<index>", src: geom, cfg}.
fn normalise(mut line: Value, index: usize) -> Value {
    if line.get("src").is_some() {
        return line;
    }
    let cfg = line.as_object_mut().and_then(|o| o.remove("cfg")).unwrap_or(Value::Null);
    json!({"id": format!("g{index}"), "src": {"k": "geom", "g": line}, "cfg": cfg})
}

fn origin(line: &Value) -> String {
    // a replayed case keeps the origin label of the case it was taken from
    if let Some(o) = line.get("origin").and_then(|o| o.as_str()) {
        return o.to_string();
    }
    let s = &line["src"];
    match s["k"].as_str().unwrap_or("") {
        "geom" => format!(
            "geom:{}:{}",
            s["g"]["construct"].as_str().unwrap_or("?"),
            s["g"]["cpos"].as_str().unwrap_or("?")
        ),
        "file" => match s.get("mut") {
            Some(m) if !m.is_null() => format!("mutant:{}", m["op"].as_str().unwrap_or("?")),
            _ => "corpus".to_string(),
        },
        k => k.to_string(),
    }
}

fn process(line: &Value) -> Done {
    let id = line["id"].clone();
    let Some(text) = case_text(line) else {
        return Done {
            info: json!({"id": id, "status": "no_text", "origin": origin(line)}),
            trace: None,
            trace_key: String::new(),
            n_elems: 0,
        };
    };
    let o = run_case(&text, &line["cfg"]);
    let mut info = json!({
        "id": id, "status": o.status, "idem": o.idem, "parse_ok": o.parse_ok, "n": o.n_elems, "sha": sha(&text),
        "changed": o.out1 != text, "comments": o.comments, "comment_moves": o.comment_moves,
        "origin": origin(line),
    });
    if o.status == "panic" {
        info["panic"] = json!(o.panic_msg);
        info["text"] = json!(text);
        info["line"] = line.clone();
    }
    if o.status == "ok" && (!o.idem || !o.parse_ok) {
        info["text"] = json!(text);
        info["out1"] = json!(o.out1);
        info["out2"] = json!(o.out2);
        info["line"] = line.clone();
    }
    let mut trace_key = String::new();
    let trace = o.trace.map(|mut t| {
        trace_key = sha(&serde_json::to_string(&t).unwrap());
        t["id"] = line["id"].clone();
        serde_json::to_string(&t).unwrap()
    });
    Done { info, trace, trace_key, n_elems: o.n_elems }
}

fn cmd_run(plan: &str, outdir: &str, batch_elems: usize, skip: usize, take: usize) {
    use std::io::BufRead;
    std::fs::create_dir_all(outdir).unwrap();
    let lines: Vec<Value> = std::io::BufReader::new(std::fs::File::open(plan).unwrap())
        .lines()
        .map(|l| l.unwrap())
        .filter(|l| !l.trim().is_empty())
        .enumerate()
        .skip(skip)
        .take(take)
        .map(|(i, l)| normalise(serde_json::from_str(&l).unwrap(), i))
        .collect();
    // quiet panics of the code under test (they are recorded as status "panic")
    std::panic::set_hook(Box::new(|_| {}));
    let mut info = NdjsonWriter::create(&format!("{outdir}/info.ndjson"));
    let mut batch = 0usize;
    let mut in_batch = 0usize;
    let mut cases_in_batch = 0usize;
    let open = |k: usize| {
        std::io::BufWriter::new(std::fs::File::create(format!("{outdir}/trace_{k:04}.ndjson")).unwrap())
    };
    let mut cur = open(0);
    let (mut n_ok, mut n_skip, mut n_bad, mut n_elems) = (0usize, 0usize, 0usize, 0usize);
    let mut seen: std::collections::HashMap<String, Value> = std::collections::HashMap::new();
    let mut n_same = 0usize;
    for chunk in lines.chunks(2048) {
        let done: Vec<Done> = chunk.par_iter().map(process).collect();
        for d in done {
            let mut i = d.info;
            if d.trace.is_some()
                && let Some(rep) = seen.get(&d.trace_key)
            {
                // an identical record was already written: its verdict is this case's verdict
                i["same_as"] = rep.clone();
                n_same += 1;
                n_ok += 1;
                n_elems += d.n_elems;
                info.write(&i);
                continue;
            }
            if let Some(t) = d.trace {
                seen.insert(d.trace_key.clone(), i["id"].clone());
                if in_batch > 0 && in_batch + d.n_elems > batch_elems {
                    cur.flush().unwrap();
                    batch += 1;
                    cur = open(batch);
                    in_batch = 0;
                    cases_in_batch = 0;
                }
                cur.write_all(t.as_bytes()).unwrap();
                cur.write_all(b"\n").unwrap();
                in_batch += d.n_elems;
                cases_in_batch += 1;
                n_elems += d.n_elems;
                i["batch"] = json!(batch);
                i["pos"] = json!(cases_in_batch);
                n_ok += 1;
            } else if i["status"] == "input_diagnostics" || i["status"] == "no_text" {
                n_skip += 1;
            } else {
                n_bad += 1;
            }
            info.write(&i);
        }
    }
    cur.flush().unwrap();
    info.finish();
    println!(
        "{}",
        json!({"recorded": n_ok, "skipped": n_skip, "panics": n_bad, "batches": if n_ok > 0 { batch + 1 } else { 0 }, "elems": n_elems,
               "same_as_earlier": n_same})
    );
}

fn cmd_show(path: &str) {
    let line: Value = serde_json::from_str(&std::fs::read_to_string(path).unwrap()).unwrap();
    let line = normalise(line, 0);
    let Some(text) = case_text(&line) else {
        println!("{}", json!({"status": "no_text"}));
        return;
    };
    std::panic::set_hook(Box::new(|_| {}));
    let o = run_case(&text, &line["cfg"]);
    let mut trace = o.trace.unwrap_or(Value::Null);
    if !trace.is_null() {
        trace["id"] = line["id"].clone();
    }
    println!(
        "{}",
        json!({"status": o.status, "text": text, "out1": o.out1, "out2": o.out2, "idem": o.idem,
               "parse_ok": o.parse_ok, "panic": o.panic_msg, "trace": trace, "sha": sha(&text), "comments": o.comments,
               "comment_moves": o.comment_moves})
    );
}

fn main() {
    let args: Vec<String> = std::env::args().collect();
    match args.get(1).map(|s| s.as_str()) {
        Some("corpus") => cmd_corpus(&args[2]),
        Some("run") => cmd_run(
            &args[2],
            &args[3],
            args.get(4).and_then(|s| s.parse().ok()).unwrap_or(400_000),
            args.get(5).and_then(|s| s.parse().ok()).unwrap_or(0),
            args.get(6).and_then(|s| s.parse().ok()).unwrap_or(usize::MAX),
        ),
        Some("show") => cmd_show(&args[2]),
        _ => {
            eprintln!("usage: fmt_check corpus|run|show ...");
            std::process::exit(2);
        }
    }
}

//! C07 — replays `ConstEval.tla` expressions (REPLAY lines, kind "const") against the three places
//! where the real compiler evaluates them:
//!   (a) `const C: T = e[v];`             value read from the semantic db (`constant_const_value`) or
//!                                        the kind of the diagnostic reported on that item;
//!   (b) `fn b(x..) -> T { e[x] }`        run with v as opaque run-time arguments;
//!   (c) `fn c() -> T { e[v] }`           literals inlined, compiled with const folding on and off.
//!
//! usage: consteval_run <cases.ndjson> <out.ndjson> <scratch-dir> [batch-size]
//! Output: one line per case {id, src, a, b, c_on, c_off} and a final {"summary":…}.
#[path = "../intops_common.rs"]
mod intops_common;

use std::collections::BTreeSet;
use std::path::Path;

use cairo_lang_compiler::db::RootDatabase;
use cairo_lang_defs::db::DefsGroup;
use cairo_lang_defs::ids::{ModuleId, NamedLanguageElementId};
use cairo_lang_filesystem::ids::CrateInput;
use cairo_lang_semantic::SemanticDiagnostic;
use cairo_lang_semantic::diagnostic::SemanticDiagnosticKind;
use cairo_lang_semantic::items::constant::{ConstValue, ConstValueId, ConstantSemantic};
use cvh::util::{NdjsonWriter, read_ndjson};
use intops_common::*;
use num_bigint::BigInt;
use num_traits::Signed;
use rayon::prelude::*;
use salsa::Database;
use serde_json::{Value, json};

// ------------------------------------------------------------------------------------------------
// Rendering of the expression AST

#[derive(Clone, Copy, PartialEq)]
enum Mode {
    /// literals inlined
    Lit,
    /// every literal leaf is a parameter
    Param,
}

struct Render {
    mode: Mode,
    /// (name, cairo type, value) of the parameters created so far
    params: Vec<(String, String, BigInt)>,
    /// const fns needed: (name, type)
    fns: BTreeSet<(String, String)>,
}

fn ty_str(t: &Value) -> String {
    match t {
        Value::String(s) => s.clone(),
        Value::Array(a) => format!("({})", a.iter().map(ty_str).collect::<Vec<_>>().join(", ")),
        _ => panic!("type tree {t}"),
    }
}

fn lit_str(ty: &str, v: &BigInt) -> String {
    if v.is_negative() { format!("(-{}_{ty})", -v) } else { format!("{v}_{ty}") }
}

fn sym(op: &str) -> &'static str {
    match op {
        "add" => "+",
        "sub" => "-",
        "mul" => "*",
        "div" => "/",
        "rem" => "%",
        "and" => "&",
        "or" => "|",
        "xor" => "^",
        "eq" => "==",
        "ne" => "!=",
        "lt" => "<",
        "le" => "<=",
        "gt" => ">",
        "ge" => ">=",
        _ => panic!("sym {op}"),
    }
}

impl Render {
    fn new(mode: Mode) -> Self {
        Render { mode, params: vec![], fns: BTreeSet::new() }
    }
    fn leaf(&mut self, cairo_ty: &str, lit: String, v: BigInt) -> String {
        match self.mode {
            Mode::Lit => lit,
            Mode::Param => {
                let n = format!("x{}", self.params.len());
                self.params.push((n.clone(), cairo_ty.to_string(), v));
                n
            }
        }
    }
    fn expr(&mut self, e: &Value) -> String {
        let k = e["k"].as_str().unwrap();
        match k {
            "lit" => {
                let ty = e["ty"].as_str().unwrap();
                let v = z_parse(&e["v"]);
                self.leaf(ty, lit_str(ty, &v), v)
            }
            "blit" => {
                let b = e["v"].as_bool().unwrap();
                self.leaf("bool", b.to_string(), BigInt::from(b as u8))
            }
            "bin" => {
                let l = self.expr(&e["l"]);
                let r = self.expr(&e["r"]);
                format!("({l} {} {r})", sym(e["op"].as_str().unwrap()))
            }
            "land" | "lor" => {
                let l = self.expr(&e["l"]);
                let r = self.expr(&e["r"]);
                format!("({l} {} {r})", if k == "land" { "&&" } else { "||" })
            }
            "un" => {
                let a = self.expr(&e["e"]);
                format!("({}{a})", if e["op"] == "neg" { "-" } else { "!" })
            }
            "divrem" => {
                let ty = e["ty"].as_str().unwrap();
                let l = self.expr(&e["l"]);
                let dv = z_parse(&e["d"]);
                // the divisor is a NonZero<T> literal (run-time twin: a NonZero<T> parameter)
                let d = self.leaf(
                    &format!("NonZero<{ty}>"),
                    if dv.is_negative() { format!("(-{})", -&dv) } else { dv.to_string() },
                    dv.clone(),
                );
                let (q, r) = if e["sel"] == 1 { ("q", "_r") } else { ("_q", "r") };
                format!("{{ let ({q}, {r}) = DivRem::<{ty}>::div_rem({l}, {d}); {} }}", if e["sel"] == 1 { "q" } else { "r" })
            }
            "conv" => {
                let (s, u) = (e["from"].as_str().unwrap(), e["to"].as_str().unwrap());
                let a = self.expr(&e["e"]);
                if e["kind"] == "into" {
                    format!("Into::<{s}, {u}>::into({a})")
                } else {
                    format!(
                        "match TryInto::<{s}, {u}>::try_into({a}) {{ Option::Some(v) => (true, v), Option::None => (false, 0) }}"
                    )
                }
            }
            "if" => {
                let c = self.expr(&e["c"]);
                let a = self.expr(&e["a"]);
                let b = self.expr(&e["b"]);
                format!("if {c} {{ {a} }} else {{ {b} }}")
            }
            "tup" => {
                let es: Vec<String> = e["es"].as_array().unwrap().iter().map(|x| self.expr(x)).collect();
                format!("({})", es.join(", "))
            }
            "fld" => {
                let inner = &e["e"];
                let n = inner["es"].as_array().unwrap().len();
                let i = e["i"].as_u64().unwrap() as usize;
                let t = self.expr(inner);
                let pat: Vec<String> = (1..=n).map(|j| if j == i { "f".to_string() } else { "_".to_string() }).collect();
                format!("{{ let ({}) = {t}; f }}", pat.join(", "))
            }
            "some" => {
                let a = self.expr(&e["e"]);
                format!("match Option::Some({a}) {{ Option::Some(v) => v, Option::None => 0 }}")
            }
            "call" => {
                let f = e["f"].as_str().unwrap();
                let ty = e["ty"].as_str().unwrap();
                let args: Vec<String> = e["args"].as_array().unwrap().iter().map(|x| self.expr(x)).collect();
                if f == "pow" {
                    format!("Pow::pow({})", args.join(", "))
                } else {
                    self.fns.insert((f.to_string(), ty.to_string()));
                    format!("{f}_{ty}({})", args.join(", "))
                }
            }
            _ => panic!("unknown AST node {k}"),
        }
    }
}

fn const_fn_src(f: &str, t: &str) -> String {
    match f {
        "sq" => format!("const fn sq_{t}(x: {t}) -> {t} {{ x * x }}\n"),
        "mad" => format!("const fn mad_{t}(x: {t}, y: {t}, z: {t}) -> {t} {{ x * y + z }}\n"),
        "pick" => format!("const fn pick_{t}(c: bool, a: {t}, b: {t}) -> {t} {{ if c {{ a }} else {{ b }} }}\n"),
        "safe_div" => format!("const fn safe_div_{t}(x: {t}, y: {t}) -> {t} {{ if y == 0 {{ 0 }} else {{ x / y }} }}\n"),
        "fact" => format!("const fn fact_{t}(n: {t}) -> {t} {{ if n == 0 {{ 1 }} else {{ n * fact_{t}(n - 1) }} }}\n"),
        _ => panic!("const fn {f}"),
    }
}

// ------------------------------------------------------------------------------------------------
// Reading a const's value from the semantic db

fn flatten_const<'db>(db: &'db dyn Database, v: ConstValueId<'db>, out: &mut Vec<BigInt>) -> Result<(), String> {
    match v.long(db) {
        ConstValue::Int(x, _) => out.push(x.clone()),
        ConstValue::Struct(vs, _) => {
            for x in vs {
                flatten_const(db, *x, out)?;
            }
        }
        ConstValue::Enum(variant, payload) => {
            out.push(BigInt::from(variant.idx));
            flatten_const(db, *payload, out)?;
        }
        ConstValue::NonZero(x) => flatten_const(db, *x, out)?,
        ConstValue::Missing(_) => return Err("missing".into()),
        other => return Err(format!("unexpected const value {other:?}")),
    }
    Ok(())
}

fn diag_kind(d: &SemanticDiagnostic<'_>) -> &'static str {
    match &d.kind {
        SemanticDiagnosticKind::LiteralError(_) => "LiteralError",
        SemanticDiagnosticKind::FailedConstantCalculation => "FailedConstantCalculation",
        SemanticDiagnosticKind::DivisionByZero => "DivisionByZero",
        SemanticDiagnosticKind::ConstantCalculationDepthExceeded => "ConstantCalculationDepthExceeded",
        SemanticDiagnosticKind::InnerFailedConstantCalculation(inner, _) => match diag_kind(inner) {
            "LiteralError" => "Inner:LiteralError",
            "FailedConstantCalculation" => "Inner:FailedConstantCalculation",
            "DivisionByZero" => "Inner:DivisionByZero",
            "UnsupportedConstant" => "UnsupportedConstant",
            _ => "Inner:other",
        },
        SemanticDiagnosticKind::UnsupportedConstant => "UnsupportedConstant",
        _ => "other",
    }
}

fn outcome_json(o: &Outcome) -> Value {
    match o {
        Outcome::Ok(v) => json!({"t": "v", "v": v.iter().map(|x| x.to_string()).collect::<Vec<_>>()}),
        Outcome::Panic(d) => {
            let (c, msg) = panic_class(d);
            json!({"t": "panic", "c": c, "msg": msg, "data": d.iter().map(|x| x.to_string()).collect::<Vec<_>>()})
        }
        Outcome::VmError(e) => json!({"t": "vmerror", "msg": e.chars().take(300).collect::<String>()}),
        Outcome::Error(e) => json!({"t": "error", "msg": e}),
    }
}

fn module_of<'db>(db: &'db RootDatabase, inputs: &[CrateInput]) -> ModuleId<'db> {
    let crate_id = CrateInput::into_crate_ids(db, inputs.to_vec())[0];
    let root = ModuleId::CrateRoot(crate_id);
    // a single-file project is `mod <stem>;` under a synthetic crate root
    if std::env::var("C07_DEBUG").is_ok() {
        eprintln!("root submodules: {:?}", db.module_submodules_ids(root).map(|s| s.len()));
        eprintln!("root consts: {:?}", db.module_constants_ids(root).map(|s| s.len()));
        if let Ok(subs) = db.module_submodules_ids(root) {
            for s in subs {
                let m = ModuleId::Submodule(*s);
                eprintln!("sub {:?} consts {:?} fns {:?} file {:?}", s.name(db).long(db), db.module_constants_ids(m).map(|x| x.len()),
                    db.module_free_functions_ids(m).map(|x| x.len()), db.module_main_file(m).map(|f| f.full_path(db)));
            }
        }
    }
    match db.module_submodules_ids(root).ok().and_then(|s| s.first().copied()) {
        Some(sub) => ModuleId::Submodule(sub),
        None => root,
    }
}

struct Case {
    id: u64,
    e: Value,
    ty: String,
}

thread_local! {
    static LAST_PANIC: std::cell::RefCell<String> = const { std::cell::RefCell::new(String::new()) };
}
/// Culprit searches (bisections of a batch whose compilation panics) still allowed.
static ISOLATION_BUDGET: std::sync::atomic::AtomicI64 = std::sync::atomic::AtomicI64::new(6);

fn guarded<T>(f: impl FnOnce() -> T) -> Result<T, String> {
    std::panic::catch_unwind(std::panic::AssertUnwindSafe(f))
        .map_err(|_| LAST_PANIC.with(|m| m.borrow().chars().take(400).collect::<String>()))
}

/// Processes one batch.  The compiler itself may panic on a generated unit (e.g. when a mis-folded
/// constant does not fit its type): the batch is then bisected down to the culprit expression(s), which
/// are examined alone, unit by unit (`single_case`).  The search is capped; batches beyond the cap are
/// reported as skipped.
fn run_batch(batch: &[Case], tag: &str, scratch: &Path) -> Vec<Value> {
    match guarded(|| try_batch(batch, tag, scratch)) {
        Ok(v) => v,
        Err(msg) => {
            if batch.len() == 1 {
                return vec![single_case(&batch[0], tag, scratch)];
            }
            if ISOLATION_BUDGET.load(std::sync::atomic::Ordering::Relaxed) <= 0 {
                return batch
                    .iter()
                    .map(|c| json!({"id": c.id, "skipped": "compiler panic in this batch; culprit search budget exhausted", "msg": msg}))
                    .collect();
            }
            let (l, r) = batch.split_at(batch.len() / 2);
            let mut out = run_batch(l, &format!("{tag}l"), scratch);
            out.extend(run_batch(r, &format!("{tag}r"), scratch));
            out
        }
    }
}

/// One expression whose batch made the compiler panic: each rendering is compiled on its own so that the
/// panicking one is identified ({"t":"compile_panic"}).
fn single_case(c: &Case, tag: &str, scratch: &Path) -> Value {
    ISOLATION_BUDGET.fetch_sub(1, std::sync::atomic::Ordering::Relaxed);
    let mut rl = Render::new(Mode::Lit);
    let lit = rl.expr(&c.e);
    let mut rp = Render::new(Mode::Param);
    let par = rp.expr(&c.e);
    let mut prelude = String::from("use core::num::traits::Pow;\n");
    for (f, t) in &rl.fns {
        prelude.push_str(&const_fn_src(f, t));
    }
    let params: Vec<String> = rp.params.iter().map(|(n, t, _)| format!("{n}: {t}")).collect();
    let args: Vec<BigInt> = rp
        .params
        .iter()
        .flat_map(|(_, t, v)| if t.contains("u256") { flat("u256", v) } else { vec![v.clone()] })
        .collect();
    let src_b = format!("{prelude}fn b_{}({}) -> {} {{ {par} }}\n", c.id, params.join(", "), c.ty);
    let src_c = format!("{prelude}fn c_{}() -> {} {{ {lit} }}\n", c.id, c.ty);
    let unit = |src: &str, name: &str, fname: &str, args: &[BigInt], folding: Folding| -> Value {
        match guarded(|| compile_runner(&scratch.join(name), &format!("{name}_{tag}"), src, folding).map(|r| run_fn(&r, fname, args))) {
            Ok(Ok(o)) => outcome_json(&o),
            Ok(Err(e)) => json!({"t": "error", "msg": format!("does not compile: {}", e.chars().take(500).collect::<String>())}),
            Err(msg) => json!({"t": "compile_panic", "msg": msg}),
        }
    };
    let b = unit(&src_b, "sb", &format!("b_{}", c.id), &args, Folding::On);
    let c_on = unit(&src_c, "sc", &format!("c_{}", c.id), &[], Folding::On);
    let c_off = unit(&src_c, "sc", &format!("c_{}", c.id), &[], Folding::Off);
    // (a): reuse the batch path on the const item alone (functions cannot disturb it)
    let a = match guarded(|| const_only(c, &lit, &prelude, tag, scratch)) {
        Ok(v) => v,
        Err(msg) => json!({"t": "compile_panic", "msg": msg}),
    };
    json!({"id": c.id, "src": lit, "ty": c.ty, "args": args.iter().map(|x| x.to_string()).collect::<Vec<_>>(),
        "a": a, "b": b, "c_on": c_on, "c_off": c_off, "isolated": true})
}

fn const_only(c: &Case, lit: &str, prelude: &str, tag: &str, scratch: &Path) -> Value {
    let src = format!("{prelude}const C_{}: {} = {lit};\n", c.id, c.ty);
    let mut db = build_db(Folding::On);
    let (_p, in_a) = setup_source(&mut db, &scratch.join("sa"), &format!("sa_{tag}"), &src);
    read_consts(&db, &in_a, std::slice::from_ref(c)).pop().unwrap()
}

/// (a) for every case of a unit: the const's value, or the kind of the diagnostics on the item.
fn read_consts(db: &RootDatabase, in_a: &[CrateInput], batch: &[Case]) -> Vec<Value> {
    let mut a_res: Vec<Value> = vec![];
    let module = module_of(db, in_a);
    let ids = db.module_constants_ids(module).expect("constants of the batch module");
    for c in batch {
        let name = format!("C_{}", c.id);
        let Some(cid) = ids.iter().find(|i| i.name(db).long(db).as_str() == name) else {
            a_res.push(json!({"t": "other", "diag": "const item not found"}));
            continue;
        };
        let diags = db.constant_semantic_diagnostics(*cid).get_all();
        let kinds: Vec<&str> = diags.iter().map(diag_kind).collect();
        if !kinds.is_empty() {
            let calc = kinds.iter().find(|k| {
                ["LiteralError", "FailedConstantCalculation", "DivisionByZero", "Inner:LiteralError",
                 "Inner:FailedConstantCalculation", "Inner:DivisionByZero"].contains(*k)
            });
            if let Some(k) = calc {
                a_res.push(json!({"t": "fail", "kind": k, "all": kinds}));
            } else if kinds.contains(&"UnsupportedConstant") {
                a_res.push(json!({"t": "unsupported", "all": kinds}));
            } else {
                let text: Vec<String> = diags.iter().map(|d| format!("{:?}", d.kind).chars().take(200).collect()).collect();
                a_res.push(json!({"t": "other", "diag": text, "all": kinds}));
            }
            continue;
        }
        match db.constant_const_value(*cid) {
            Ok(v) => {
                let mut cells = vec![];
                match flatten_const(db, v, &mut cells) {
                    Ok(()) => a_res.push(json!({"t": "v", "v": cells.iter().map(|x| centre(x).to_string()).collect::<Vec<_>>()})),
                    Err(e) => a_res.push(json!({"t": "other", "diag": e})),
                }
            }
            Err(_) => a_res.push(json!({"t": "other", "diag": "constant_const_value failed without diagnostics"})),
        }
    }
    a_res
}

fn try_batch(batch: &[Case], bi: &str, scratch: &Path) -> Vec<Value> {
    let mut consts = String::from("use core::num::traits::Pow;\n");
    let mut funcs = String::from("use core::num::traits::Pow;\n");
    let mut fns: BTreeSet<(String, String)> = BTreeSet::new();
    let mut b_args: Vec<Vec<BigInt>> = vec![];
    let mut srcs: Vec<String> = vec![];
    let mut body_c = String::new();
    let mut body_f = String::new();
    for c in batch {
        let mut rl = Render::new(Mode::Lit);
        let lit = rl.expr(&c.e);
        let mut rp = Render::new(Mode::Param);
        let par = rp.expr(&c.e);
        fns.extend(rl.fns.iter().cloned());
        body_c.push_str(&format!("const C_{}: {} = {lit};\n", c.id, c.ty));
        let params: Vec<String> = rp.params.iter().map(|(n, t, _)| format!("{n}: {t}")).collect();
        body_f.push_str(&format!("fn b_{}({}) -> {} {{ {par} }}\n", c.id, params.join(", "), c.ty));
        body_f.push_str(&format!("fn c_{}() -> {} {{ {lit} }}\n", c.id, c.ty));
        b_args.push(
            rp.params
                .iter()
                .flat_map(|(_, t, v)| if t.contains("u256") { flat("u256", v) } else { vec![v.clone()] })
                .collect(),
        );
        srcs.push(lit);
    }
    for (f, t) in &fns {
        consts.push_str(&const_fn_src(f, t));
        funcs.push_str(&const_fn_src(f, t));
    }
    consts.push_str(&body_c);
    funcs.push_str(&body_f);

    // (a) consts through the semantic db; (b), (c folding on) from the same database
    let mut db = build_db(Folding::On);
    let (_p, in_a) = setup_source(&mut db, &scratch.join("a"), &format!("c07a_{bi}"), &consts);
    let (_p, in_b) = setup_source(&mut db, &scratch.join("b"), &format!("c07b_{bi}"), &funcs);
    let a_res = read_consts(&db, &in_a, batch);
    let mut errs = String::new();
    let failed = {
        let mut rep = cairo_lang_compiler::diagnostics::DiagnosticsReporter::write_to_string(&mut errs)
            .with_crates(&in_b)
            .allow_warnings();
        rep.check(&db)
    };
    if failed {
        panic!("generated run-time twins of batch {bi} do not compile:\n{}", errs.chars().take(3000).collect::<String>());
    }
    let runner_on = runner_from_db(&db, in_b).unwrap_or_else(|e| panic!("batch {bi}: {e}"));
    drop(db);
    // (c) folding off
    let mut db_off = build_db(Folding::Off);
    let (_p, in_off) = setup_source(&mut db_off, &scratch.join("b"), &format!("c07b_{bi}"), &funcs);
    let runner_off = runner_from_db(&db_off, in_off).unwrap_or_else(|e| panic!("batch {bi} (no folding): {e}"));

    let mut out = vec![];
    for (i, c) in batch.iter().enumerate() {
        let b = run_fn(&runner_on, &format!("b_{}", c.id), &b_args[i]);
        let c_on = run_fn(&runner_on, &format!("c_{}", c.id), &[]);
        let c_off = run_fn(&runner_off, &format!("c_{}", c.id), &[]);
        out.push(json!({"id": c.id, "src": srcs[i], "ty": c.ty, "args": b_args[i].iter().map(|x| x.to_string()).collect::<Vec<_>>(),
            "a": a_res[i], "b": outcome_json(&b), "c_on": outcome_json(&c_on), "c_off": outcome_json(&c_off)}));
    }
    out
}

fn main() {
    let a: Vec<String> = std::env::args().collect();
    if a.len() < 4 {
        eprintln!("usage: consteval_run <cases.ndjson> <out.ndjson> <scratch-dir> [batch-size]");
        std::process::exit(2);
    }
    let bs: usize = a.get(4).and_then(|s| s.parse().ok()).unwrap_or(200);
    let cases: Vec<Case> = read_ndjson(&a[1])
        .into_iter()
        .enumerate()
        .map(|(i, v)| Case {
            id: v["id"].as_u64().unwrap_or(i as u64 + 1),
            ty: ty_str(&v["ty"]),
            e: v["e"].clone(),
        })
        .collect();
    let t0 = std::time::Instant::now();
    let scratch = Path::new(&a[3]);
    let batches: Vec<&[Case]> = cases.chunks(bs).collect();
    // compiler panics are caught per batch (see run_batch); keep their message, silence the backtrace
    std::panic::set_hook(Box::new(|info| {
        let msg = info.to_string();
        LAST_PANIC.with(|m| *m.borrow_mut() = msg);
    }));
    let results: Vec<Vec<Value>> =
        batches.par_iter().enumerate().map(|(bi, b)| run_batch(b, &format!("{bi}"), scratch)).collect();
    let _ = std::panic::take_hook();
    let mut w = NdjsonWriter::create(&a[2]);
    let mut n = 0u64;
    for r in results {
        for x in r {
            w.write(&x);
            n += 1;
        }
    }
    w.write(&json!({"summary": {"cases": n, "batches": batches.len(), "wall_s": t0.elapsed().as_secs_f64()}}));
    w.finish();
}

//! C12 — executes TLC-generated *histories* (thread count x prefix of unrelated queries x
//! sequential/parallel-on-clones x compile entry point) on fresh RootDatabases and compares the
//! observable outputs of all histories of one project byte by byte.
//!
//! usage: det_replay <input.ndjson> <output.ndjson> <scratch-dir>
//! input lines:  {"k":"settings",...} {"k":"project",...} {"k":"hist","id","project","threads","mode","entry","prefix":[{"q","a"}]}
//! output lines: {"k":"res","id","project","hashes","ms","equal"} {"k":"diff",...} {"summary":{...}}
#[path = "../cdb_common.rs"]
mod cdb_common;

use std::collections::BTreeMap;
use std::panic::{AssertUnwindSafe, catch_unwind};
use std::path::Path;
use std::time::Instant;

use cairo_lang_compiler::db::RootDatabase;
use cairo_lang_compiler::diagnostics::get_diagnostics_as_string;
use cairo_lang_defs::db::DefsGroup;
use cairo_lang_defs::ids::TopLevelLanguageElementId;
use cairo_lang_filesystem::db::FilesGroup;
use cairo_lang_filesystem::ids::{CrateId, CrateInput};
use cairo_lang_lowering::LoweringStage;
use cairo_lang_lowering::db::LoweringGroup;
use cairo_lang_semantic::db::SemanticGroup;
use cairo_lang_sierra_generator::db::SierraGenGroup;
use cairo_lang_sierra_generator::program_generator::find_all_free_function_ids;
use cdb_common::*;
use cvh::util::{NdjsonWriter, read_ndjson};
use serde_json::{Value, json};

/// One "unrelated" query of a history prefix.  Errors are irrelevant (only the side effect on the
/// database's memo/intern tables matters), panics are caught and counted.
fn run_query(db: &RootDatabase, main: &[CrateInput], q: &Value) {
    let main_ids = CrateInput::into_crate_ids(db, main.to_vec());
    let slot = q["a"].as_u64().unwrap_or(0) as usize;
    match q["q"].as_str().unwrap_or("") {
        "diag" => {
            if slot < main_ids.len() && (slot == 0 || main_ids.len() > 1) {
                let _ = get_diagnostics_as_string(db, Some(vec![main_ids[slot]]));
            } else {
                // single-crate project: one submodule of the crate on its own (the second by name), ...
                if let Some(c) = main_ids.first() {
                    let root = cairo_lang_defs::ids::ModuleId::CrateRoot(*c);
                    if let Ok(subs) = db.module_submodules_ids(root) {
                        use cairo_lang_defs::ids::NamedLanguageElementId;
                        let mut subs: Vec<_> = subs.iter().copied().collect();
                        subs.sort_by_key(|m| m.name(db).long(db).to_string());
                        if let Some(m) = subs.get(1) {
                            let _ = db.module_semantic_diagnostics(cairo_lang_defs::ids::ModuleId::Submodule(*m));
                        }
                    }
                }
                // ... and "another crate": a module of the core library
                let core = CrateId::core(db);
                for m in db.crate_modules(core).iter() {
                    if m.full_path(db) == "core::option" {
                        let _ = db.module_semantic_diagnostics(*m);
                        let _ = db.module_lowering_diagnostics(*m);
                    }
                }
            }
        }
        "lower" | "sierra" => {
            // The definitions are looked up without interning any concrete function id: only the one chosen
            // function is turned into a ConcreteFunctionWithBodyId, so the query really perturbs the order in
            // which the database meets (and numbers) the functions.
            let mut defs = vec![];
            for c in main_ids.iter() {
                for m in db.crate_modules(*c).iter() {
                    if let Ok(data) = m.module_data(db) {
                        for (id, _) in data.free_functions(db).iter() {
                            defs.push(*id);
                        }
                    }
                }
            }
            if defs.is_empty() {
                return;
            }
            defs.sort_by_key(|f| f.full_path(db));
            // slot 0: the last function (by path), slot 1: the middle one - i.e. not the
            // functions the breadth-first assembly meets first.  Generic functions have no concrete id
            // without arguments: the nearest earlier non-generic one is taken.
            let start = if slot == 0 { defs.len() - 1 } else { defs.len() / 2 };
            let Some(f) = (0..=start).rev().find_map(|i| {
                cairo_lang_lowering::ids::ConcreteFunctionWithBodyId::from_no_generics_free(db, defs[i])
            }) else {
                return;
            };
            if q["q"] == "lower" {
                let _ = db.lowered_body(f, LoweringStage::Final);
            } else {
                let _ = db.function_with_body_sierra(f);
            }
        }
        "modules" => {
            for c in db.crates().iter() {
                let _ = db.crate_modules(*c);
            }
        }
        other => panic!("unknown prefix query {other}"),
    }
}


fn run_history(project: &Project, settings: &Settings, hist: &Value, scratch: &Path, want_casm: bool) -> (Obs, u64) {
    let threads = hist["threads"].as_u64().unwrap_or(1) as usize;
    let par = hist["mode"] == "par";
    let entry = if hist["entry"] == "plain" { Entry::Plain } else { Entry::Artifact };
    let prefix: Vec<Value> = hist["prefix"].as_array().cloned().unwrap_or_default();
    let pool = rayon::ThreadPoolBuilder::new().num_threads(threads).build().unwrap();
    // The whole history runs on a worker of the pool (the database is Send but not Sync), so
    // `rayon::current_num_threads()` is `threads` for everything the compiler does.
    pool.install(move || {
        let mut prefix_panics = 0u64;
        let mut db = new_db_ex(settings, project.starknet, project.test_attrs);
        let main = setup(&mut db, project, scratch);
        if par {
            let n = std::thread::scope(|s| {
                let hs: Vec<_> = prefix
                    .iter()
                    .map(|q| {
                        let snap = db.snapshot();
                        let main = main.clone();
                        s.spawn(move || catch_unwind(AssertUnwindSafe(|| run_query(&snap, &main, q))).is_err())
                    })
                    .collect();
                hs.into_iter().map(|h| h.join().unwrap_or(true) as u64).sum::<u64>()
            });
            prefix_panics += n;
        } else {
            for q in &prefix {
                if catch_unwind(AssertUnwindSafe(|| run_query(&db, &main, q))).is_err() {
                    prefix_panics += 1;
                }
            }
        }
        let obs = catch_unwind(AssertUnwindSafe(|| observe(&db, &main, entry, project.contracts, want_casm)))
            .unwrap_or_else(|e| vec![("panic".to_string(), panic_text(e))]);
        (obs, prefix_panics)
    })
}

/// `det_replay graph <input.ndjson> <output.json> <scratch>`: exports, for the first project of the
/// input, what the Assembly spec needs to predict the assembled program from the sources alone -
/// requested functions in order, the body of every function as call/libfunc statements - together
/// with what the real assembly produced (function order, libfunc declaration order).
fn cmd_graph(args: &[String]) {
    use cairo_lang_compiler::{CompilerConfig, compile_prepared_db_program_artifact};
    use cairo_lang_compiler::diagnostics::DiagnosticsReporter;
    use cairo_lang_sierra::program::{GenStatement, GenericArg};
    use cairo_lang_sierra_generator::executables::find_executable_function_ids;
    use cairo_lang_sierra_generator::replace_ids::{DebugReplacer, SierraIdReplacer};
    let lines = read_ndjson(&args[2]);
    let scratch = Path::new(&args[4]);
    let mut settings = Settings::from_json(&json!({}));
    let mut project = None;
    for l in &lines {
        match l["k"].as_str().unwrap_or("") {
            "settings" => settings = Settings::from_json(l),
            "project" if project.is_none() => project = Some(Project::from_json(l)),
            _ => {}
        }
    }
    let project = project.expect("no project");
    let mut db = new_db_ex(&settings, project.starknet, project.test_attrs);
    let main = setup(&mut db, &project, scratch);
    let db = &db;
    let main_ids = CrateInput::into_crate_ids(db, main.clone());
    let cfg = CompilerConfig {
        diagnostics_reporter: DiagnosticsReporter::ignoring().with_crates(&main).allow_warnings(),
        replace_ids: false,
        ..Default::default()
    };
    let program = compile_prepared_db_program_artifact(db, main_ids.clone(), cfg).expect("compile").program;
    let rep = DebugReplacer { db };
    let fname = |id: &cairo_lang_sierra::ids::FunctionId| rep.replace_function_id(id).debug_name.unwrap().to_string();
    // the requested functions, as compile_prepared_db_program_artifact chooses them
    let exec = find_executable_function_ids(db, main_ids.clone());
    let requested: Vec<_> = if exec.is_empty() {
        find_all_free_function_ids(db, main_ids).expect("functions")
    } else {
        exec.keys().cloned().collect()
    };
    let requested: Vec<String> =
        requested.iter().map(|f| fname(&db.intern_sierra_function(f.function_id(db).expect("function id")))).collect();
    let stmt_json = |s: &cairo_lang_sierra::program::Statement| -> Option<Value> {
        let GenStatement::Invocation(inv) = s else { return None };
        let long = db.lookup_concrete_lib_func(&inv.libfunc_id);
        let g = long.generic_id.to_string();
        let callee = if g == "function_call" || g == "coupon_call" {
            match long.generic_args.first() {
                Some(GenericArg::UserFunc(f)) => Some(f.clone()),
                _ => None,
            }
        } else if g == "coupon_buy" || g == "coupon_refund" {
            match long.generic_args.first() {
                Some(GenericArg::Type(t)) => match db.lookup_concrete_type(t) {
                    cairo_lang_sierra_generator::db::SierraGeneratorTypeLongId::Regular(l) => match l.generic_args.first() {
                        Some(GenericArg::UserFunc(f)) => Some(f.clone()),
                        _ => None,
                    },
                    _ => None,
                },
                _ => None,
            }
        } else {
            None
        };
        let name = rep.replace_libfunc_id(&inv.libfunc_id).debug_name.unwrap().to_string();
        Some(match callee {
            Some(f) => json!({"k":"call","f":fname(&f),"l":name}),
            None => json!({"k":"lib","l":name}),
        })
    };
    let mut body = serde_json::Map::new();
    let mut funcs = vec![];
    for (i, f) in program.funcs.iter().enumerate() {
        let start = f.entry_point.0;
        let end = program.funcs.get(i + 1).map(|g| g.entry_point.0).unwrap_or(program.statements.len());
        let name = fname(&f.id);
        let stmts: Vec<Value> = program.statements[start..end].iter().filter_map(&stmt_json).collect();
        body.insert(name.clone(), Value::Array(stmts));
        funcs.push(name);
    }
    let libs: Vec<String> = program
        .libfunc_declarations
        .iter()
        .map(|d| rep.replace_libfunc_id(&d.id).debug_name.unwrap().to_string())
        .collect();
    let out = json!({"project": project.name, "requested": requested, "body": body, "funcs": funcs, "libs": libs,
                     "n_statements": program.statements.len()});
    std::fs::write(&args[3], serde_json::to_string(&out).unwrap()).unwrap();
}

fn main() {
    let args: Vec<String> = std::env::args().collect();
    if args.len() >= 5 && args[1] == "graph" {
        cmd_graph(&args);
        return;
    }
    if args.len() < 4 {
        eprintln!("usage: det_replay <input.ndjson> <output.ndjson> <scratch-dir>");
        std::process::exit(2);
    }
    // panics of the code under test are caught and reported as observations; keep stderr quiet
    install_quiet_panic_hook();
    let lines = read_ndjson(&args[1]);
    let mut w = NdjsonWriter::create(&args[2]);
    let scratch = Path::new(&args[3]);
    std::fs::create_dir_all(scratch).unwrap();
    let dump = std::env::var("CDB_DUMP").is_ok();
    let mut settings = Settings::from_json(&json!({}));
    let mut projects: BTreeMap<String, Project> = BTreeMap::new();
    let mut want_casm = true;
    // baseline per project: (history id, observation)
    let mut base: BTreeMap<String, (Value, Obs)> = BTreeMap::new();
    let (mut n_hist, mut n_diff, mut n_prefix_panics) = (0u64, 0u64, 0u64);
    for l in &lines {
        match l["k"].as_str().unwrap_or("") {
            "settings" => {
                settings = Settings::from_json(l);
                want_casm = l.get("casm").and_then(|x| x.as_bool()).unwrap_or(true);
            }
            "project" => {
                let p = Project::from_json(l);
                projects.insert(p.name.clone(), p);
            }
            "hist" => {
                let pname = l["project"].as_str().unwrap();
                let project = projects.get(pname).unwrap_or_else(|| panic!("unknown project {pname}"));
                let t0 = Instant::now();
                let (mut obs, pp) = run_history(project, &settings, l, scratch, want_casm);
                // self-test of the comparison (CDB_CORRUPT=<history id>): flip one byte of one observable
                if std::env::var("CDB_CORRUPT").ok().and_then(|s| s.parse::<u64>().ok()) == l["id"].as_u64() {
                    if let Some((_, v)) = obs.iter_mut().find(|(k, _)| k == "sierra_debug") {
                        v.push('!');
                    }
                }
                let ms = t0.elapsed().as_millis() as u64;
                n_hist += 1;
                n_prefix_panics += pp;
                if dump {
                    for (k, v) in &obs {
                        let p = scratch.join(format!("dump_{}_{}_{}.txt", pname, l["id"], k));
                        std::fs::write(p, v).unwrap();
                    }
                }
                let mut equal = true;
                match base.get(pname) {
                    None => {
                        base.insert(pname.to_string(), (l.clone(), obs.clone()));
                    }
                    Some((bh, bobs)) => {
                        let d = diff_obs(bobs, &obs);
                        if !d.is_empty() {
                            equal = false;
                            n_diff += 1;
                            w.write(&json!({"k":"diff","project":pname,"base":bh,"other":l,"parts":d}));
                        }
                    }
                }
                let sizes: BTreeMap<String, usize> = obs.iter().map(|(k, v)| (k.clone(), v.len())).collect();
                w.write(&json!({"k":"res","id":l["id"],"project":pname,"hashes":obs_hashes(&obs),"sizes":sizes,
                                "ms":ms,"equal":equal,"prefix_panics":pp}));
            }
            _ => {}
        }
    }
    w.write(&json!({"summary":{"histories":n_hist,"diffs":n_diff,"prefix_panics":n_prefix_panics,
                               "projects":projects.len()}}));
    w.finish();
}

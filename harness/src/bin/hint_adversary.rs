//! C03 / L1 — concrete fault injection into hint outputs, bound to `specs/LibfuncSound/HintAdversary*.tla`.
//!
//! usage:
//!   hint_adversary record <plan.json> <outdir>
//!       plan: {programs:[{id, source | path, funcs:"foo"|"all", auto_gas}], inputs_per_fn, max_occ, max_steps}
//!       compiles every program with the real compiler, runs the selected functions honestly on
//!       boundary x random scalar inputs through the wrapping hint processor in recording mode and
//!       writes  <outdir>/runs_tlc.ndjson  (what HintAdversaryGen.tla reads: per run the selected hint
//!       occurrences with their number of output cells, boolean flags and number of visible inputs),
//!       <outdir>/runs_full.ndjson (addresses and values, for `attack`), <outdir>/sierra/<id>.sierra.
//!   hint_adversary attack <outdir> <plans.ndjson> <events.ndjson> <alarms.ndjson>
//!       plans.ndjson: the REPLAY lines of TLC: {id, plans:[{occ,c,c2,kind,j}]}.  Every plan is made
//!       concrete (values derived from the honest outputs), executed on the real VM with the value(s)
//!       pre-written into the output cell(s) before the honest hint runs, and logged as events
//!       honest / inject / outcome for HintAdversaryTrace.tla.  An altered run that completes with a
//!       result different from the honest one (arrays by content) is written to alarms.ndjson.
//!   hint_adversary single <replay.json> <out.json>
//!       re-executes one alarm (self-contained: Sierra text, function, args, plan).
#[path = "../c03_common.rs"]
mod c03_common;

use std::collections::{BTreeMap, BTreeSet};
use std::hash::{Hash, Hasher};
use std::path::Path;
use std::sync::Mutex;

use c03_common::*;
use cairo_lang_sierra::program::{Function, Program};
use cairo_vm::Felt252;
use cairo_vm::types::relocatable::{MaybeRelocatable, Relocatable};
use cvh::util::{NdjsonWriter, Rng, read_ndjson, seed_from_env};
use num_bigint::BigInt;
use num_integer::Integer;
use num_traits::{One, Signed, Zero};
use rayon::prelude::*;
use serde_json::{Value, json};

fn h16(s: &str) -> String {
    // FNV-1a 64: stable across runs and Rust versions
    let mut h: u64 = 0xcbf29ce484222325;
    for b in s.as_bytes() {
        h ^= *b as u64;
        h = h.wrapping_mul(0x100000001b3);
    }
    format!("{h:016x}")
}

fn rand_big(rng: &mut Rng, lo: &BigInt, hi: &BigInt) -> BigInt {
    let span = hi - lo + 1u32;
    let mut x = BigInt::zero();
    for _ in 0..5 {
        x = (x << 64u32) + BigInt::from(rng.next_u64());
    }
    lo + x.mod_floor(&span)
}

fn scalar_cands(ls: &[Leaf], rng: &mut Rng) -> Vec<Vec<BigInt>> {
    ls.iter()
        .map(|l| {
            let mut c: Vec<BigInt> = vec![l.lo.clone(), l.hi.clone()];
            for v in [&l.lo + 1u32, &l.hi - 1u32, BigInt::zero(), BigInt::one(), BigInt::from(2), (&l.lo + &l.hi) / 2u32] {
                if v >= l.lo && v <= l.hi {
                    c.push(v);
                }
            }
            for _ in 0..4 {
                c.push(rand_big(rng, &l.lo, &l.hi));
            }
            // small magnitudes are where most libfunc branches are decided
            let small_hi = if l.hi > BigInt::from(300) { BigInt::from(300) } else { l.hi.clone() };
            let small_lo = if l.lo < BigInt::from(-300) { BigInt::from(-300) } else { l.lo.clone() };
            if small_lo <= small_hi {
                c.push(rand_big(rng, &small_lo, &small_hi));
            }
            if l.nonzero {
                c.retain(|v| !v.is_zero());
            }
            if c.is_empty() {
                c.push(l.hi.clone());
            }
            c
        })
        .collect()
}

/// Values suggested by the immediates of the program's CASM (bounds, shifts, limits): v, -v,
/// 2^128 - v, v - 2^128 and their neighbours. Inputs at these values are where an off-by-one in a
/// libfunc's range check shows.
fn mined_values(c: &Compiled) -> Vec<BigInt> {
    use cairo_lang_casm::instructions::InstructionBody;
    use cairo_lang_casm::operand::{DerefOrImmediate, ResOperand};
    let p = prime();
    let two128: BigInt = BigInt::one() << 128u32;
    let mut base: Vec<BigInt> = vec![];
    for i in &c.builder.casm_program().instructions {
        if let InstructionBody::AssertEq(a) = &i.body {
            let v = match &a.b {
                ResOperand::Immediate(v) => Some(v.value.clone()),
                ResOperand::BinOp(b) => match &b.b {
                    DerefOrImmediate::Immediate(v) => Some(v.value.clone()),
                    _ => None,
                },
                _ => None,
            };
            if let Some(v) = v {
                let v = canon(&v);
                if !base.contains(&v) {
                    base.push(v);
                }
            }
        }
        if base.len() >= 40 {
            break;
        }
    }
    let mut out: Vec<BigInt> = vec![];
    for v in base {
        for s in [v.clone(), &p - &v, &two128 - &v, &v - &two128, &two128 - (&p - &v)] {
            for d in [-1i32, 0, 1] {
                let x = &s + BigInt::from(d);
                if !out.contains(&x) {
                    out.push(x);
                }
            }
        }
    }
    out
}

/// Extra input vectors: one leaf takes a mined value, the others a random candidate.
fn mined_vectors(ls: &[Leaf], mined: &[BigInt], n: usize, rng: &mut Rng) -> Vec<Vec<ArgV>> {
    let scalar_idx: Vec<usize> = ls.iter().enumerate().filter(|(_, l)| l.elem.is_none()).map(|(i, _)| i).collect();
    if scalar_idx.is_empty() || n == 0 {
        return vec![];
    }
    let mut options: Vec<(usize, BigInt)> = vec![];
    for &j in &scalar_idx {
        for v in mined {
            // the integer or its residue may lie in the leaf's range
            for cand in [v.clone(), v - prime()] {
                if cand >= ls[j].lo && cand <= ls[j].hi && !(ls[j].nonzero && cand.is_zero()) {
                    options.push((j, cand));
                }
            }
        }
    }
    let mut out = vec![];
    let mut seen = BTreeSet::new();
    while out.len() < n && !options.is_empty() {
        let (j, v) = options.swap_remove(rng.below(options.len() as u64) as usize);
        let base = input_vectors(ls, 1, rng).pop().unwrap_or_default();
        if base.len() != ls.len() {
            break;
        }
        let mut vec = base;
        vec[j] = ArgV::V(v);
        if seen.insert(vec.clone()) {
            out.push(vec);
        }
    }
    out
}

fn input_vectors(ls: &[Leaf], n: usize, rng: &mut Rng) -> Vec<Vec<ArgV>> {
    if ls.is_empty() {
        return vec![vec![]];
    }
    let scalars: Vec<Leaf> = ls.iter().map(|l| if l.elem.is_some() { Leaf { elem: None, ..l.clone() } } else { l.clone() }).collect();
    let cands = scalar_cands(&scalars, rng);
    let mut out: Vec<Vec<ArgV>> = vec![];
    let mut seen = BTreeSet::new();
    let mut t = 0usize;
    while out.len() < n && t < 4 * n + 8 {
        let v: Vec<ArgV> = ls
            .iter()
            .enumerate()
            .map(|(j, l)| match &l.elem {
                None => {
                    let c = &cands[j];
                    ArgV::V(if t < 3 { c[(t + j * (t + 1)) % c.len()].clone() } else { rng.pick(c).clone() })
                }
                Some(el) => {
                    let len = [3usize, 0, 1, 2, 5][(t + j) % 5];
                    let ec = scalar_cands(el, rng);
                    let mut vs = vec![];
                    for _ in 0..len {
                        for c in &ec {
                            vs.push(rng.pick(c).clone());
                        }
                    }
                    ArgV::A(vs)
                }
            })
            .collect();
        t += 1;
        if seen.insert(v.clone()) {
            out.push(v);
        }
    }
    out
}

fn canon(v: &BigInt) -> BigInt {
    v.mod_floor(&prime())
}

fn mr_json(v: &MaybeRelocatable) -> Value {
    match v {
        MaybeRelocatable::Int(f) => json!(f.to_string()),
        MaybeRelocatable::RelocatableValue(r) => json!([r.segment_index, r.offset]),
    }
}
fn mr_of(v: &Value) -> MaybeRelocatable {
    match v {
        Value::String(s) => MaybeRelocatable::Int(felt_of(&s.parse::<BigInt>().unwrap())),
        Value::Array(a) => MaybeRelocatable::RelocatableValue(Relocatable {
            segment_index: a[0].as_i64().unwrap() as isize,
            offset: a[1].as_u64().unwrap() as usize,
        }),
        _ => panic!("bad value"),
    }
}

fn user_functions<'a>(c: &'a Compiled, which: &str) -> Vec<&'a Function> {
    let prog = c.builder.sierra_program();
    prog.funcs
        .iter()
        .filter(|f| {
            let name = f.id.debug_name.as_ref().map(|s| s.to_string()).unwrap_or_default();
            if which == "all" {
                !name.starts_with("core::") && !name.contains("::core::")
            } else {
                name.ends_with(&format!("::{which}")) || name == which
            }
        })
        .collect()
}

fn fn_leaves(c: &Compiled, f: &Function) -> Option<Vec<Leaf>> {
    let mut ls = vec![];
    for t in &f.signature.param_types {
        let gid = c.builder.type_long_id(t).generic_id.clone();
        if !c.builder.is_user_arg_type(&gid) {
            continue;
        }
        leaves(&c.builder, t, false, &mut ls)?;
    }
    Some(ls)
}

fn gas_for(c: &Compiled, f: &Function) -> Option<usize> {
    // enough for the small programs; recursion-until-out-of-gas programs stay short
    Some(c.runner.initial_required_gas(f).unwrap_or(0) + 300_000)
}

fn select_occurrences(recs: &[HintOcc], max_occ: usize, rng: &mut Rng) -> Vec<usize> {
    let elig: Vec<usize> = recs.iter().filter(|r| !r.excluded && !r.outs.is_empty()).map(|r| r.idx).collect();
    let mut chosen: Vec<usize> = vec![];
    let mut sites = BTreeSet::new();
    for &i in &elig {
        if chosen.len() >= max_occ {
            break;
        }
        if sites.insert(recs[i].pc) {
            chosen.push(i);
        }
    }
    let mut rest: Vec<usize> = elig.iter().cloned().filter(|i| !chosen.contains(i)).collect();
    while chosen.len() < max_occ && !rest.is_empty() {
        let k = rng.below(rest.len() as u64) as usize;
        chosen.push(rest.swap_remove(k));
    }
    chosen.sort();
    chosen
}

fn cmd_record(plan_path: &str, outdir: &str) {
    let plan: Value = serde_json::from_str(&std::fs::read_to_string(plan_path).unwrap()).unwrap();
    let programs = plan["programs"].as_array().unwrap().clone();
    let n_inputs = plan["inputs_per_fn"].as_u64().unwrap_or(3) as usize;
    let max_occ = plan["max_occ"].as_u64().unwrap_or(8) as usize;
    let max_steps = plan["max_steps"].as_u64().unwrap_or(200_000) as usize;
    let max_fns = plan["max_fns"].as_u64().unwrap_or(6) as usize;
    let n_mined = plan["mined_inputs_per_fn"].as_u64().unwrap_or(0) as usize;
    let seed = seed_from_env();
    std::fs::create_dir_all(format!("{outdir}/sierra")).unwrap();
    let threads = rayon::current_num_threads().max(1);
    let per = programs.len().div_ceil(threads).max(1);
    let chunks: Vec<(usize, &[Value])> = programs.chunks(per).enumerate().collect();
    let skipped = Mutex::new(Vec::<Value>::new());
    let all: Vec<(Value, Value)> = chunks
        .par_iter()
        .map(|(ci, chunk)| {
            let mut dbs: BTreeMap<bool, cairo_lang_compiler::db::RootDatabase> = BTreeMap::new();
            let mut out = vec![];
            for p in chunk.iter() {
                let id = p["id"].as_str().unwrap().to_string();
                let auto_gas = p["auto_gas"].as_bool().unwrap_or(true);
                let source = match p.get("source").and_then(|s| s.as_str()) {
                    Some(s) => s.to_string(),
                    None => std::fs::read_to_string(p["path"].as_str().unwrap()).unwrap_or_default(),
                };
                let db = dbs.entry(auto_gas).or_insert_with(|| build_db(auto_gas));
                let src_dir = format!("{outdir}/_src{ci}");
                let compiled = std::panic::catch_unwind(std::panic::AssertUnwindSafe(|| {
                    let program = compile_source(db, Path::new(&src_dir), &format!("p_{}", h16(&id)), &source)?;
                    let c = build_runner(&program)?;
                    Ok::<_, String>((program, c))
                }));
                let (program, c) = match compiled {
                    Ok(Ok(x)) => x,
                    Ok(Err(e)) => {
                        let mut e = e;
                        e.truncate(160);
                        skipped.lock().unwrap().push(json!({"id": id, "why": format!("compile: {e}")}));
                        continue;
                    }
                    Err(_) => {
                        dbs.remove(&auto_gas);
                        skipped.lock().unwrap().push(json!({"id": id, "why": "panic while compiling"}));
                        continue;
                    }
                };
                std::fs::write(format!("{outdir}/sierra/{}.sierra", h16(&id)), program.to_string()).unwrap();
                let which = p["funcs"].as_str().unwrap_or("foo");
                let mined = mined_values(&c);
                let mut n_fn = 0;
                for f in user_functions(&c, which) {
                    if n_fn >= max_fns {
                        break;
                    }
                    let Some(ls) = fn_leaves(&c, f) else {
                        skipped.lock().unwrap().push(json!({"id": id, "fn": f.id.to_string(), "why": "non-scalar parameter"}));
                        continue;
                    };
                    n_fn += 1;
                    let fname = f.id.to_string();
                    let mut rng = Rng::new(seed ^ u64::from_str_radix(&h16(&format!("{id}/{fname}"))[..15], 16).unwrap());
                    let n_inputs = p.get("inputs_per_fn").and_then(|x| x.as_u64()).map(|x| x as usize).unwrap_or(n_inputs);
                    let mut vectors = input_vectors(&ls, n_inputs, &mut rng);
                    let extra = mined_vectors(&ls, &mined, n_mined, &mut rng);
                    for v in extra {
                        if !vectors.contains(&v) {
                            vectors.push(v);
                        }
                    }
                    for (k, args) in vectors.into_iter().enumerate() {
                        let gas = gas_for(&c, f);
                        let (obs, adv) =
                            run_with(&c, f, &args, gas, max_steps, Mode::Record { full_scan_limit: 60_000 });
                        if obs.kind != "ok" && obs.kind != "panic" {
                            let mut why = obs.err.clone();
                            why.truncate(120);
                            skipped.lock().unwrap().push(
                                json!({"id": id, "fn": fname, "args": args.iter().map(|a| a.to_json()).collect::<Vec<_>>(),
                                       "why": format!("honest run: {} {}", obs.kind, why)}),
                            );
                            continue;
                        }
                        let chosen = select_occurrences(&adv.records, max_occ, &mut rng);
                        let rid = format!("{}#{}#{}", id, fname, k);
                        let occs_tlc: Vec<Value> = chosen
                            .iter()
                            .map(|&i| {
                                let r = &adv.records[i];
                                let bools: Vec<u8> = r
                                    .outs
                                    .iter()
                                    .map(|(_, v)| match v {
                                        MaybeRelocatable::Int(f) if *f == Felt252::from(0) || *f == Felt252::from(1) => 1,
                                        _ => 0,
                                    })
                                    .collect();
                                json!({"i": r.idx, "hint": r.name, "nout": r.outs.len().min(6), "bools": bools.iter().take(6).collect::<Vec<_>>(),
                                       "nin": distinct_ins(r).len()})
                            })
                            .collect();
                        let occs_full: Vec<Value> = chosen
                            .iter()
                            .map(|&i| {
                                let r = &adv.records[i];
                                json!({"i": r.idx, "hint": r.name, "pc": r.pc,
                                       "outs": r.outs.iter().map(|(a, v)| json!([a.segment_index, a.offset, mr_json(v)])).collect::<Vec<_>>(),
                                       "ins": distinct_ins(r).iter().map(|x| x.to_string()).collect::<Vec<_>>()})
                            })
                            .collect();
                        let hist: BTreeMap<String, usize> = adv.records.iter().fold(BTreeMap::new(), |mut m, r| {
                            *m.entry(r.name.clone()).or_default() += 1;
                            m
                        });
                        let res = h16(&obs.digest());
                        let tlc = json!({"id": rid, "res": res, "occs": occs_tlc});
                        let full = json!({
                            "id": rid, "prog": id, "sierra": h16(&id), "fn": fname,
                            "args": args.iter().map(|a| a.to_json()).collect::<Vec<_>>(),
                            "gas": gas, "steps": obs.steps, "res": res,
                            "honest": {"kind": obs.kind, "content": obs.content, "gas": obs.gas, "opaque": obs.opaque},
                            "n_hints": adv.records.len(), "hint_hist": hist, "occs": occs_full,
                        });
                        out.push((tlc, full));
                    }
                }
            }
            out
        })
        .collect::<Vec<_>>()
        .into_iter()
        .flatten()
        .collect();
    let mut w1 = NdjsonWriter::create(&format!("{outdir}/runs_tlc.ndjson"));
    let mut w2 = NdjsonWriter::create(&format!("{outdir}/runs_full.ndjson"));
    for (a, b) in &all {
        w1.write(a);
        w2.write(b);
    }
    w1.finish();
    w2.finish();
    let mut w3 = NdjsonWriter::create(&format!("{outdir}/skipped.ndjson"));
    for s in skipped.lock().unwrap().iter() {
        w3.write(s);
    }
    w3.finish();
}

fn distinct_ins(r: &HintOcc) -> Vec<BigInt> {
    let mut v: Vec<BigInt> = vec![];
    for x in &r.ins {
        let c = canon(x);
        if !c.is_zero() && !c.is_one() && !v.contains(&c) {
            v.push(c);
        }
        if v.len() == 4 {
            break;
        }
    }
    v
}

/// Concrete values of a plan: Vec<(index into outs, value)>; None when the plan is a no-op or not
/// applicable to these honest values.
fn concretise(plan: &Value, outs: &[(Relocatable, MaybeRelocatable)], ins: &[BigInt], rng_key: &str) -> Option<Vec<(usize, MaybeRelocatable)>> {
    let p: BigInt = prime();
    let two128: BigInt = BigInt::one() << 128u32;
    let c = plan["c"].as_u64()? as usize;
    let c2 = plan["c2"].as_u64().unwrap_or(0) as usize;
    let kind = plan["kind"].as_str()?;
    let j = plan["j"].as_u64().unwrap_or(0) as usize;
    if c == 0 || c > outs.len() || c2 > outs.len() {
        return None;
    }
    let int_of = |k: usize| -> Option<BigInt> {
        match &outs[k - 1].1 {
            MaybeRelocatable::Int(f) => Some(big_of(f)),
            _ => None,
        }
    };
    let mk = |v: BigInt| MaybeRelocatable::Int(felt_of(&canon(&v)));
    if c2 == 0 {
        let honest = &outs[c - 1].1;
        let newv: MaybeRelocatable = match honest {
            MaybeRelocatable::RelocatableValue(r) => match kind {
                "inc" => MaybeRelocatable::RelocatableValue(Relocatable { segment_index: r.segment_index, offset: r.offset + 1 }),
                "dec" if r.offset > 0 => {
                    MaybeRelocatable::RelocatableValue(Relocatable { segment_index: r.segment_index, offset: r.offset - 1 })
                }
                "zero" => mk(BigInt::zero()),
                "rand" => mk(BigInt::from(u64::from_str_radix(&h16(rng_key)[..15], 16).unwrap())),
                _ => return None,
            },
            MaybeRelocatable::Int(f) => {
                let v = big_of(f);
                let nv = match kind {
                    "flip" => BigInt::one() - &v,
                    "inc" => &v + 1u32,
                    "dec" => &v - 1u32,
                    "neg" => &p - &v,
                    "zero" => BigInt::zero(),
                    "max128" => &two128 - 1u32,
                    "pow128" => two128.clone(),
                    "pm1" => &p - 1u32,
                    "rand" => {
                        let mut r = Rng::new(u64::from_str_radix(&h16(rng_key)[..15], 16).unwrap());
                        rand_big(&mut r, &BigInt::zero(), &(&p - 1u32))
                    }
                    _ => return None,
                };
                mk(nv)
            }
        };
        if &newv == honest {
            return None;
        }
        return Some(vec![(c - 1, newv)]);
    }
    let (a, b) = (int_of(c)?, int_of(c2)?);
    let (na, nb) = match kind {
        "swap" => (b.clone(), a.clone()),
        _ => {
            let d = ins.get(j.checked_sub(1)?)?.clone();
            if d.is_zero() {
                return None;
            }
            match kind {
                // c is the quotient-like cell, c2 the remainder-like one
                "dq_p" => (&a + 1u32, &b - &d),
                "dq_m" => (&a - 1u32, &b + &d),
                // the other way round
                "dr_p" => (&a - &d, &b + 1u32),
                "dr_m" => (&a + &d, &b - 1u32),
                // the decomposition of (value + P) instead of value
                "wrap_q" => {
                    let total = &a * &d + &b + &p;
                    total.div_mod_floor(&d)
                }
                "wrap_r" => {
                    let total = &b * &d + &a + &p;
                    let (q, r) = total.div_mod_floor(&d);
                    (r, q)
                }
                _ => return None,
            }
        }
    };
    let (na, nb) = (canon(&na), canon(&nb));
    if na == a && nb == b {
        return None;
    }
    Some(vec![(c - 1, mk(na)), (c2 - 1, mk(nb))])
}

fn parse_outs(o: &Value) -> Vec<(Relocatable, MaybeRelocatable)> {
    o["outs"]
        .as_array()
        .unwrap()
        .iter()
        .map(|x| {
            (
                Relocatable { segment_index: x[0].as_i64().unwrap() as isize, offset: x[1].as_u64().unwrap() as usize },
                mr_of(&x[2]),
            )
        })
        .collect()
}

struct AttackResult {
    event: Value,
    alarm: Option<Value>,
}

fn attack_one(c: &Compiled, f: &Function, run: &Value, occ: &Value, plan: &Value, sierra_text: &str) -> Option<AttackResult> {
    let args: Vec<ArgV> = run["args"].as_array().unwrap().iter().map(ArgV::from_json).collect();
    let outs = parse_outs(occ);
    let ins: Vec<BigInt> = occ["ins"].as_array().unwrap().iter().map(|a| a.as_str().unwrap().parse().unwrap()).collect();
    let rid = run["id"].as_str().unwrap();
    let key = format!("{}/{}/{}/{}", seed_from_env(), rid, plan["occ"], plan["c"]);
    let writes = concretise(plan, &outs, &ins, &key)?;
    let honest = HintOcc {
        idx: occ["i"].as_u64().unwrap() as usize,
        pc: occ["pc"].as_u64().unwrap_or(0) as usize,
        name: occ["hint"].as_str().unwrap_or("").to_string(),
        excluded: false,
        outs,
        ins: vec![],
    };
    let steps = run["steps"].as_u64().unwrap_or(1000) as usize;
    let gas = run["gas"].as_u64().map(|g| g as usize);
    let (obs, adv) = run_with(
        c,
        f,
        &args,
        gas,
        4 * steps + 20_000,
        Mode::Attack { occ: honest.idx, writes: writes.clone(), honest: &honest },
    );
    let hres = run["res"].as_str().unwrap();
    let (k, res) = match obs.kind.as_str() {
        "ok" | "panic" => {
            let r = h16(&obs.digest());
            if r == hres {
                ("ok", r)
            } else if obs.opaque || run["honest"]["opaque"].as_bool().unwrap_or(false) {
                ("opaque", r)
            } else {
                ("ok", r)
            }
        }
        _ => ("fail", String::new()),
    };
    let gas_diff = k == "ok" && obs.gas != run["honest"]["gas"].as_str().map(|s| s.to_string());
    let event = json!({"e": "outcome", "id": rid, "k": k, "res": res, "gasdiff": gas_diff, "hint": honest.name});
    let alarm = if k == "ok" && res != hres {
        Some(json!({
            "id": rid, "prog": run["prog"], "fn": run["fn"], "args": run["args"], "gas": run["gas"], "steps": steps,
            "plan": plan, "occ": occ, "sierra_text": sierra_text,
            "writes": writes.iter().map(|(i, v)| json!([i, mr_json(v)])).collect::<Vec<_>>(),
            "honest": run["honest"], "altered": {"kind": obs.kind, "content": obs.content, "gas": obs.gas},
            "note": adv.attack_note,
        }))
    } else {
        None
    };
    Some(AttackResult { event, alarm })
}

fn parse_sierra(text: &str) -> Result<Program, String> {
    cairo_lang_sierra::ProgramParser::new().parse(text).map_err(|e| format!("sierra parse: {e:?}"))
}

fn cmd_attack(outdir: &str, plans_path: &str, events_path: &str, alarms_path: &str) {
    let runs = read_ndjson(&format!("{outdir}/runs_full.ndjson"));
    let tlc_runs: BTreeMap<String, Value> = read_ndjson(&format!("{outdir}/runs_tlc.ndjson"))
        .into_iter()
        .map(|r| (r["id"].as_str().unwrap().to_string(), r))
        .collect();
    let plans: BTreeMap<String, Value> =
        read_ndjson(plans_path).into_iter().map(|p| (p["id"].as_str().unwrap().to_string(), p)).collect();
    // group runs by program
    let mut by_prog: BTreeMap<String, Vec<&Value>> = BTreeMap::new();
    for r in &runs {
        by_prog.entry(r["sierra"].as_str().unwrap().to_string()).or_default().push(r);
    }
    let groups: Vec<(&String, &Vec<&Value>)> = by_prog.iter().collect();
    let results: Vec<(Vec<Value>, Vec<Value>)> = groups
        .par_iter()
        .map(|(sid, rs)| {
            let mut events = vec![];
            let mut alarms = vec![];
            let text = std::fs::read_to_string(format!("{outdir}/sierra/{sid}.sierra")).unwrap_or_default();
            let c = match parse_sierra(&text).and_then(|p| build_runner(&p)) {
                Ok(c) => c,
                Err(e) => {
                    events.push(json!({"e": "harness", "id": sid, "msg": e}));
                    return (events, alarms);
                }
            };
            for run in rs.iter() {
                let rid = run["id"].as_str().unwrap();
                let Some(pl) = plans.get(rid) else { continue };
                let fname = run["fn"].as_str().unwrap();
                let Some(f) = c.builder.sierra_program().funcs.iter().find(|f| f.id.to_string() == fname) else {
                    events.push(json!({"e": "harness", "id": rid, "msg": "function not found after re-parse"}));
                    continue;
                };
                let t = &tlc_runs[rid];
                events.push(json!({"e": "honest", "id": rid, "res": run["res"], "occs": t["occs"]}));
                let occs: BTreeMap<u64, &Value> =
                    run["occs"].as_array().unwrap().iter().map(|o| (o["i"].as_u64().unwrap(), o)).collect();
                for plan in pl["plans"].as_array().unwrap() {
                    let Some(occ) = occs.get(&plan["occ"].as_u64().unwrap()) else { continue };
                    if let Some(r) = attack_one(&c, f, run, occ, plan, &text) {
                        events.push(json!({"e": "inject", "id": rid, "occ": plan["occ"], "c": plan["c"], "c2": plan["c2"],
                                           "kind": plan["kind"], "j": plan["j"]}));
                        events.push(r.event);
                        if let Some(a) = r.alarm {
                            alarms.push(a);
                        }
                    }
                }
            }
            (events, alarms)
        })
        .collect();
    let mut w = NdjsonWriter::create(events_path);
    let mut wa = NdjsonWriter::create(alarms_path);
    for (ev, al) in &results {
        for e in ev {
            w.write(e);
        }
        for a in al {
            wa.write(a);
        }
    }
    w.finish();
    wa.finish();
}

fn cmd_single(replay_path: &str, out_path: &str) {
    let v: Value = serde_json::from_str(&std::fs::read_to_string(replay_path).unwrap()).unwrap();
    let a = if v.get("replay").is_some() { v["replay"]["alarm"].clone() } else { v.clone() };
    let out = (|| -> Result<Value, String> {
        let c = build_runner(&parse_sierra(a["sierra_text"].as_str().unwrap())?)?;
        let fname = a["fn"].as_str().unwrap();
        let f = c
            .builder
            .sierra_program()
            .funcs
            .iter()
            .find(|f| f.id.to_string() == fname)
            .ok_or("function not found".to_string())?
            .clone();
        let args: Vec<ArgV> = a["args"].as_array().unwrap().iter().map(ArgV::from_json).collect();
        let gas = a["gas"].as_u64().map(|g| g as usize);
        let steps = a["steps"].as_u64().unwrap_or(1000) as usize;
        let (hon, rec) = run_with(&c, &f, &args, gas, 4 * steps + 20_000, Mode::Record { full_scan_limit: 60_000 });
        let occ_i = a["occ"]["i"].as_u64().unwrap() as usize;
        let honest = rec.records.get(occ_i).cloned().ok_or("occurrence not found in the honest run".to_string())?;
        let writes: Vec<(usize, MaybeRelocatable)> =
            a["writes"].as_array().unwrap().iter().map(|w| (w[0].as_u64().unwrap() as usize, mr_of(&w[1]))).collect();
        let (alt, adv) = run_with(&c, &f, &args, gas, 4 * steps + 20_000, Mode::Attack { occ: occ_i, writes, honest: &honest });
        let differs = (alt.kind == "ok" || alt.kind == "panic") && alt.digest() != hon.digest() && !alt.opaque && !hon.opaque;
        Ok(json!({"honest": {"kind": hon.kind, "content": hon.content}, "altered": {"kind": alt.kind, "content": alt.content, "err": alt.err},
                  "note": adv.attack_note, "differs": differs}))
    })();
    let v = match out {
        Ok(v) => v,
        Err(e) => json!({"error": e}),
    };
    std::fs::write(out_path, serde_json::to_string_pretty(&v).unwrap()).unwrap();
}

fn main() {
    let args: Vec<String> = std::env::args().collect();
    if std::env::var("CVH_LOUD").is_err() {
        quiet_panics();
    }
    match args.get(1).map(|s| s.as_str()) {
        Some("record") if args.len() == 4 => cmd_record(&args[2], &args[3]),
        Some("attack") if args.len() == 6 => cmd_attack(&args[2], &args[3], &args[4], &args[5]),
        Some("single") if args.len() == 4 => cmd_single(&args[2], &args[3]),
        _ => {
            eprintln!("usage: hint_adversary record <plan.json> <outdir> | attack <outdir> <plans> <events> <alarms> | single <replay> <out>");
            std::process::exit(2);
        }
    }
    let _ = (BigInt::zero().is_negative(), std::collections::hash_map::DefaultHasher::new().finish());
    let mut h = std::collections::hash_map::DefaultHasher::new();
    0u8.hash(&mut h);
}

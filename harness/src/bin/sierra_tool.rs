//! sierra_tool — exporter / runner / mutator for the Sierra-level specifications
//! (SierraAnnot: C15; SierraRun: C02, C04, C17; SierraPipeline: C14).
//!
//! usage: sierra_tool batch <jobs.json> <outdir>
//!   jobs.json: {"seed":n, "vectors":k, "threads":n, "jobs":[{"id":"…","kind":"cairo"|"sierra","path":"…",
//!               "solver":"linear"|"lp", "run":true|false, "mutants": n}]}
//!   writes <outdir>/progs.ndjson   one export per accepted/attempted program ({"id", "accepted", "err", "export"})
//!          <outdir>/trace.ndjson   run events (reset / x / fin / vmerr …), programs referenced by 1-based index into progs.ndjson
//!          <outdir>/stages.ndjson  pipeline stage logs per program (C14)
#[path = "../sierra_common.rs"]
mod sierra_common;
#[path = "../sierra_mutate.rs"]
mod sierra_mutate;

use std::panic::{AssertUnwindSafe, catch_unwind};
use std::path::Path;
use std::sync::Mutex;

use cairo_lang_runnable_utils::builder::RunnableBuilder;
use cairo_lang_runner::SierraCasmRunner;
use cairo_lang_sierra::ProgramParser;
use cairo_lang_sierra::program::Program;
use cairo_vm::Felt252;
use cvh::util::{NdjsonWriter, Rng};
use num_bigint::BigInt;
use rayon::prelude::*;
use serde_json::{Value, json};
use sierra_common::*;

fn felt_of(x: &BigInt) -> Felt252 {
    Felt252::from(x.clone())
}

/// boundary values of a scalar Sierra type (by generic id); None = not a supported scalar
fn boundaries(generic: &str, rng: &mut Rng) -> Option<Vec<BigInt>> {
    let one = BigInt::from(1);
    let unsigned = |bits: u32, rng: &mut Rng| {
        let max: BigInt = (BigInt::from(1) << bits) - BigInt::from(1);
        let mut v = vec![BigInt::from(0), BigInt::from(1), BigInt::from(2), max.clone() - BigInt::from(1), max.clone()];
        for k in [7u32, 8, 15, 16, 31, 32, 63, 64, 127] {
            if k < bits {
                v.push(BigInt::from(1) << k);
                v.push((BigInt::from(1) << k) - BigInt::from(1));
            }
        }
        for _ in 0..3 {
            let r: BigInt = (BigInt::from(rng.next_u64()) << 64) + BigInt::from(rng.next_u64());
            v.push(r % (max.clone() + BigInt::from(1)));
        }
        v
    };
    let signed = |bits: u32, rng: &mut Rng| {
        let max: BigInt = (BigInt::from(1) << (bits - 1)) - BigInt::from(1);
        let min: BigInt = -(BigInt::from(1) << (bits - 1));
        let mut v = vec![BigInt::from(0), BigInt::from(1), BigInt::from(-1), BigInt::from(2), max.clone(), max.clone() - BigInt::from(1), min.clone(), min.clone() + BigInt::from(1)];
        for _ in 0..3 {
            let r: BigInt = (BigInt::from(rng.next_u64()) << 64) + BigInt::from(rng.next_u64());
            v.push(r % (max.clone() - min.clone() + BigInt::from(1)) + min.clone());
        }
        v
    };
    Some(match generic {
        "u8" => unsigned(8, rng),
        "u16" => unsigned(16, rng),
        "u32" => unsigned(32, rng),
        "u64" => unsigned(64, rng),
        "u128" => unsigned(128, rng),
        "i8" => signed(8, rng),
        "i16" => signed(16, rng),
        "i32" => signed(32, rng),
        "i64" => signed(64, rng),
        "i128" => signed(128, rng),
        "felt252" => {
            let p: BigInt = BigInt::parse_bytes(b"800000000000011000000000000000000000000000000000000000000000001", 16).unwrap();
            let mut v = vec![BigInt::from(0), one.clone(), BigInt::from(2), p.clone() - BigInt::from(1), p.clone() - BigInt::from(2), BigInt::from(1) << 128, (BigInt::from(1) << 128) - BigInt::from(1),
                             BigInt::from(1) << 64, BigInt::from(255), BigInt::from(256), BigInt::from(10)];
            for _ in 0..3 {
                let r: BigInt = (BigInt::from(rng.next_u64()) << 190) + (BigInt::from(rng.next_u64()) << 64) + BigInt::from(rng.next_u64());
                v.push(r % p.clone());
            }
            v
        }
        _ => return None,
    })
}

struct JobOut {
    prog: Value,
    traces: Vec<Vec<Value>>,
    stages: Vec<Value>,
}

fn load_program(job: &Value) -> Result<Program, String> {
    let path = job.get("path").and_then(|p| p.as_str()).unwrap_or("");
    match job["kind"].as_str().unwrap() {
        "cairo" => {
            let auto_gas = job.get("auto_gas").and_then(|x| x.as_bool()).unwrap_or(true);
            match catch_unwind(AssertUnwindSafe(|| compile_cairo(Path::new(path), auto_gas, None))) {
                Ok(r) => r,
                Err(_) => Err("panic in cairo compilation".into()),
            }
        }
        "sierra" => {
            let text = std::fs::read_to_string(path).map_err(|e| e.to_string())?;
            ProgramParser::new().parse(&text).map_err(|e| format!("sierra parse: {e:?}"))
        }
        "sierra_text" => {
            ProgramParser::new().parse(job["text"].as_str().unwrap()).map_err(|e| format!("sierra parse: {e:?}"))
        }
        k => Err(format!("unknown kind {k}")),
    }
}

/// Runs the pipeline stages on `program`, logging stage outcomes (C14) and returning the builder.
fn build_with_stages(program: &Program, linear: bool, stages: &mut Vec<Value>, tag: &str) -> Option<RunnableBuilder> {
    stages.push(json!({"e":"reset","id": tag}));
    let r = catch_unwind(AssertUnwindSafe(|| RunnableBuilder::new(program.clone(), Some(metadata_config(linear)))));
    match r {
        Ok(Ok(b)) => {
            stages.push(json!({"e":"stage","name":"build","out":"ok","err":""}));
            Some(b)
        }
        Ok(Err(e)) => {
            let mut s = format!("{e}");
            s.truncate(200);
            stages.push(json!({"e":"stage","name":"build","out":"err","err": s}));
            None
        }
        Err(p) => {
            let msg = p.downcast_ref::<String>().cloned().or_else(|| p.downcast_ref::<&str>().map(|s| s.to_string())).unwrap_or_default();
            stages.push(json!({"e":"panic","stage":"build","at": msg.chars().take(200).collect::<String>()}));
            None
        }
    }
}

fn run_program(
    id: &str,
    program: &Program,
    b: &RunnableBuilder,
    linear: bool,
    vectors: usize,
    rng: &mut Rng,
    traces: &mut Vec<Vec<Value>>,
    max_funcs: usize,
    ample_gas: usize,
) {
    let runner = match SierraCasmRunner::new(program.clone(), Some(metadata_config(linear)), Default::default(), None) {
        Ok(r) => r,
        Err(_) => return,
    };
    let mut nf = 0;
    for (fi, func) in program.funcs.iter().enumerate() {
        let params = user_param_sizes(b, func);
        let mut cols: Vec<Vec<BigInt>> = vec![];
        let mut ok = true;
        for (g, sz) in &params {
            if *sz != 1 {
                ok = false;
                break;
            }
            match boundaries(g, rng) {
                Some(v) => cols.push(v),
                None => {
                    ok = false;
                    break;
                }
            }
        }
        if !ok {
            continue;
        }
        nf += 1;
        if nf > max_funcs {
            break;
        }
        // functions of one or two arguments get every boundary value of their widest column at least once
        let nvec = if cols.is_empty() {
            1
        } else if cols.len() <= 2 {
            vectors.max(cols.iter().map(|c| c.len()).max().unwrap_or(0).min(14))
        } else {
            vectors
        };
        let req = initial_required_gas(b, func).unwrap_or(0);
        let ample = req + ample_gas;
        for j in 0..nvec {
            let args: Vec<BigInt> = cols
                .iter()
                .enumerate()
                .map(|(c, col)| {
                    if j < 2 * col.len() { col[(j * (c + 1) + c * 3) % col.len()].clone() } else { rng.pick(col).clone() }
                })
                .collect();
            let felts: Vec<Felt252> = args.iter().map(felt_of).collect();
            // gas ladder: ample / just above the declared entry cost / below it (the runner must refuse)
            let gases: Vec<usize> = match j % 4 {
                2 => vec![req + 2000 + (rng.below(30) as usize) * 100],
                3 => vec![*rng.pick(&[0usize, req / 2, req.saturating_sub(1), req])],
                _ => vec![ample],
            };
            for g in gases {
                let r = catch_unwind(AssertUnwindSafe(|| run_with_trace(&runner, b, func, &felts, Some(g))));
                let mut ev = vec![json!({"e":"reset","prog": id,"fn": fi + 1,"g": g,
                    "args": args.iter().map(|a| a.to_string()).collect::<Vec<_>>(), "solver": if linear {"linear"} else {"lp"}})];
                match r {
                    Ok(t) => {
                        ev.extend(t.events);
                        ev.push(json!({"e":"result","kind": t.kind,"value": t.value}));
                    }
                    Err(_) => ev.push(json!({"e":"harness","msg":"panic while running"})),
                }
                traces.push(ev);
            }
        }
    }
}

fn process_job(job: &Value, seed: u64, vectors: usize, ample_gas: usize) -> Vec<JobOut> {
    let id = job["id"].as_str().unwrap().to_string();
    let mut rng = Rng::new(seed ^ cvh::util::Rng::new(id.len() as u64).next_u64() ^ id.bytes().fold(0u64, |a, b| a.wrapping_mul(131).wrapping_add(b as u64)));
    let linear = job.get("solver").and_then(|s| s.as_str()).unwrap_or("linear") == "linear";
    let mut outs = vec![];
    let program = match load_program(job) {
        Ok(p) => p,
        Err(e) => {
            let mut s = e;
            s.truncate(300);
            outs.push(JobOut { prog: json!({"id": id, "accepted": false, "err": s, "stage": "load"}), traces: vec![], stages: vec![] });
            return outs;
        }
    };
    let mut stages = vec![];
    let b = build_with_stages(&program, linear, &mut stages, &id);
    let mut traces = vec![];
    let export = export_program(&program, b.as_ref());
    if let (Some(b), Some(ex)) = (&b, job.get("explicit").and_then(|x| x.as_array())) {
        if let Ok(runner) = SierraCasmRunner::new(program.clone(), Some(metadata_config(linear)), Default::default(), None) {
            for r in ex {
                let fi = match r.get("fn_name").and_then(|n| n.as_str()) {
                    Some(name) => match program.funcs.iter().position(|f| f.id.debug_name.as_ref().map(|d| d.ends_with(name)).unwrap_or(false)) {
                        Some(i) => i,
                        None => continue,
                    },
                    None => r["fn"].as_u64().unwrap() as usize - 1,
                };
                let Some(func) = program.funcs.get(fi) else { continue };
                let args: Vec<BigInt> = r["args"].as_array().unwrap().iter().map(|a| a.as_str().unwrap().parse::<BigInt>().unwrap()).collect();
                let felts: Vec<Felt252> = args.iter().map(felt_of).collect();
                let g = r["g"].as_u64().unwrap() as usize;
                let t = catch_unwind(AssertUnwindSafe(|| run_with_trace(&runner, b, func, &felts, Some(g))));
                let mut ev = vec![json!({"e":"reset","prog": id,"fn": fi + 1,"g": g,
                    "args": args.iter().map(|a| a.to_string()).collect::<Vec<_>>(), "solver": if linear {"linear"} else {"lp"}})];
                match t {
                    Ok(t) => {
                        ev.extend(t.events);
                        ev.push(json!({"e":"result","kind": t.kind,"value": t.value}));
                    }
                    Err(_) => ev.push(json!({"e":"harness","msg":"panic while running"})),
                }
                traces.push(ev);
            }
        }
    }
    let generic_too = job.get("explicit").is_none() || job.get("also_generic").and_then(|x| x.as_bool()).unwrap_or(false);
    if let (Some(b), true) = (&b, generic_too) {
        if job.get("run").and_then(|x| x.as_bool()).unwrap_or(true) {
            let max_funcs = job.get("max_funcs").and_then(|x| x.as_u64()).unwrap_or(6) as usize;
            run_program(&id, &program, b, linear, vectors, &mut rng, &mut traces, max_funcs, ample_gas);
        }
    }
    outs.push(JobOut { prog: json!({"id": id, "accepted": b.is_some(), "err": "", "stage": "", "export": export}), traces, stages });

    // mutants
    let n_mut = job.get("mutants").and_then(|x| x.as_u64()).unwrap_or(0) as usize;
    if n_mut > 0 {
        let plans = sierra_mutate::plans(&program, n_mut, &mut rng);
        for (k, plan) in plans.iter().enumerate() {
            let mid = format!("{id}#m{k}");
            let Some(mp) = sierra_mutate::apply(&program, plan) else { continue };
            let mut st = vec![];
            let mb = build_with_stages(&mp, linear, &mut st, &mid);
            let mut tr = vec![];
            let accepted = mb.is_some();
            let prog = if accepted {
                let mb = mb.as_ref().unwrap();
                if job.get("run_mutants").and_then(|x| x.as_bool()).unwrap_or(true) {
                    let r = catch_unwind(AssertUnwindSafe(|| {
                        let mut t = vec![];
                        run_program(&mid, &mp, mb, linear, 2.min(vectors), &mut rng.clone(), &mut t, 2, ample_gas);
                        t
                    }));
                    if let Ok(t) = r {
                        tr = t;
                    }
                }
                json!({"id": mid, "accepted": true, "err": "", "stage": "", "plan": plan.to_json(), "export": export_program(&mp, Some(mb)),
                       "sierra": mp.to_string()})
            } else if job.get("export_rejected").and_then(|x| x.as_bool()).unwrap_or(false) {
                let reg = catch_unwind(AssertUnwindSafe(|| CoreRegistry::new(&mp))).ok().and_then(|r| r.ok());
                match reg {
                    Some(reg) => json!({"id": mid, "accepted": false, "err": "", "stage": "compile", "plan": plan.to_json(),
                                        "export": export_program_ex(&mp, None, Some(&reg))}),
                    None => json!({"id": mid, "accepted": false, "err": "", "stage": "registry", "plan": plan.to_json()}),
                }
            } else {
                json!({"id": mid, "accepted": false, "err": "", "stage": "build", "plan": plan.to_json()})
            };
            outs.push(JobOut { prog, traces: tr, stages: st });
        }
    }
    outs
}

fn run_worker(spec_path: &str, outdir: &str) {
    let args: Vec<String> = vec![String::new(), String::new(), spec_path.to_string(), outdir.to_string()];
    let spec: Value = serde_json::from_str(&std::fs::read_to_string(&args[2]).unwrap()).unwrap();
    let outdir = &args[3];
    std::fs::create_dir_all(outdir).unwrap();
    let seed = spec.get("seed").and_then(|x| x.as_u64()).unwrap_or(1);
    let vectors = spec.get("vectors").and_then(|x| x.as_u64()).unwrap_or(4) as usize;
    let ample_gas = spec.get("ample_gas").and_then(|x| x.as_u64()).unwrap_or(1_000_000) as usize;
    let threads = spec.get("threads").and_then(|x| x.as_u64()).unwrap_or(14) as usize;
    let jobs = spec["jobs"].as_array().unwrap().clone();
    let progs = Mutex::new(NdjsonWriter::create(&format!("{outdir}/progs.ndjson")));
    let rejected = Mutex::new(NdjsonWriter::create(&format!("{outdir}/rejected.ndjson")));
    let trace = Mutex::new(NdjsonWriter::create(&format!("{outdir}/trace.ndjson")));
    let stages = Mutex::new(NdjsonWriter::create(&format!("{outdir}/stages.ndjson")));
    let counts = Mutex::new((0usize, 0usize, 0usize)); // programs accepted, rejected, runs
    let done = Mutex::new(std::fs::OpenOptions::new().create(true).append(true).open(format!("{outdir}/done.txt")).unwrap());
    let pool = rayon::ThreadPoolBuilder::new().num_threads(threads).stack_size(64 << 20).build().unwrap();
    pool.install(|| {
        jobs.par_iter().for_each(|job| {
            let tix = rayon::current_thread_index().unwrap_or(0);
            let _ = std::fs::write(format!("{outdir}/inflight.{tix}"), job["id"].as_str().unwrap_or(""));
            let outs = process_job(job, seed, vectors, ample_gas);
            for o in outs {
                let accepted = o.prog["accepted"] == true;
                {
                    let mut c = counts.lock().unwrap();
                    if accepted { c.0 += 1 } else { c.1 += 1 }
                    c.2 += o.traces.len();
                }
                if accepted {
                    // keep a program and its runs together and in order
                    let mut p = progs.lock().unwrap();
                    let mut t = trace.lock().unwrap();
                    p.write(&o.prog);
                    for run in &o.traces {
                        for e in run {
                            t.write(e);
                        }
                    }
                } else {
                    rejected.lock().unwrap().write(&o.prog);
                }
                let mut s = stages.lock().unwrap();
                for e in &o.stages {
                    s.write(e);
                }
            }
            {
                use std::io::Write;
                let mut d = done.lock().unwrap();
                let _ = writeln!(d, "{}", job["id"].as_str().unwrap_or(""));
                let _ = d.flush();
            }
            let _ = std::fs::remove_file(format!("{outdir}/inflight.{tix}"));
        })
    });
    progs.into_inner().unwrap().finish();
    rejected.into_inner().unwrap().finish();
    trace.into_inner().unwrap().finish();
    stages.into_inner().unwrap().finish();
    let c = counts.lock().unwrap();
    println!("sierra_tool: accepted={} rejected={} runs={}", c.0, c.1, c.2);
}

/// Parent: split the jobs over worker processes (memory-limited), restart a worker that died on
/// the jobs it had not finished, record the jobs that were in flight when it died.
fn main() {
    let args: Vec<String> = std::env::args().collect();
    if args.len() < 4 || (args[1] != "batch" && args[1] != "worker") {
        eprintln!("usage: sierra_tool batch <jobs.json> <outdir>");
        std::process::exit(2);
    }
    if std::env::var("CVH_LOUD").is_err() { quiet_panics(); }
    if args[1] == "worker" {
        run_worker(&args[2], &args[3]);
        return;
    }
    let spec: Value = serde_json::from_str(&std::fs::read_to_string(&args[2]).unwrap()).unwrap();
    let outdir = &args[3];
    std::fs::create_dir_all(outdir).unwrap();
    let jobs = spec["jobs"].as_array().unwrap().clone();
    let threads = spec.get("threads").and_then(|x| x.as_u64()).unwrap_or(14) as usize;
    let n_workers = spec.get("workers").and_then(|x| x.as_u64()).unwrap_or(4).max(1) as usize;
    let n_workers = n_workers.min(jobs.len().max(1));
    let mem_kb = spec.get("worker_mem_kb").and_then(|x| x.as_u64()).unwrap_or(14_000_000);
    let exe = std::env::current_exe().unwrap();
    let mut slices: Vec<Vec<Value>> = vec![vec![]; n_workers];
    for (i, j) in jobs.into_iter().enumerate() {
        slices[i % n_workers].push(j);
    }
    let crashed = Mutex::new(Vec::<Value>::new());
    std::thread::scope(|sc| {
        for (w, slice) in slices.iter().enumerate() {
            let crashed = &crashed;
            let spec = &spec;
            let exe = &exe;
            sc.spawn(move || {
                let wdir = format!("{outdir}/w{w}");
                std::fs::create_dir_all(&wdir).unwrap();
                let mut remaining: Vec<Value> = slice.clone();
                for attempt in 0..40 {
                    if remaining.is_empty() {
                        break;
                    }
                    let adir = format!("{wdir}/a{attempt}");
                    std::fs::create_dir_all(&adir).unwrap();
                    let mut sp = spec.clone();
                    sp["jobs"] = Value::Array(remaining.clone());
                    sp["threads"] = json!((threads / n_workers).max(1));
                    let sp_path = format!("{adir}/jobs.json");
                    std::fs::write(&sp_path, sp.to_string()).unwrap();
                    let cmd = format!("ulimit -v {mem_kb}; exec {} worker {} {}", exe.display(), sp_path, adir);
                    let st = std::process::Command::new("bash").arg("-c").arg(&cmd).stdout(std::process::Stdio::null()).status();
                    let ok = st.map(|s| s.success()).unwrap_or(false);
                    if ok {
                        break;
                    }
                    // died: which jobs were finished / in flight?
                    let done: std::collections::BTreeSet<String> = std::fs::read_to_string(format!("{adir}/done.txt"))
                        .unwrap_or_default()
                        .lines()
                        .map(|l| l.to_string())
                        .collect();
                    let mut inflight: std::collections::BTreeSet<String> = Default::default();
                    if let Ok(rd) = std::fs::read_dir(&adir) {
                        for e in rd.flatten() {
                            if e.file_name().to_string_lossy().starts_with("inflight.") {
                                if let Ok(t) = std::fs::read_to_string(e.path()) {
                                    inflight.insert(t);
                                }
                            }
                        }
                    }
                    for id in &inflight {
                        crashed.lock().unwrap().push(json!({"id": id, "suspects": inflight.len()}));
                    }
                    remaining.retain(|j| {
                        let id = j["id"].as_str().unwrap_or("").to_string();
                        !done.contains(&id) && !inflight.contains(&id)
                    });
                }
            });
        }
    });
    // merge
    let mut totals = (0usize, 0usize, 0usize);
    for name in ["progs.ndjson", "rejected.ndjson", "trace.ndjson", "stages.ndjson"] {
        use std::io::Write;
        let mut out = std::io::BufWriter::new(std::fs::File::create(format!("{outdir}/{name}")).unwrap());
        for w in 0..n_workers {
            for attempt in 0..40 {
                let p = format!("{outdir}/w{w}/a{attempt}/{name}");
                if let Ok(text) = std::fs::read_to_string(&p) {
                    // a worker that died may have left a torn last line: keep complete JSON lines only
                    for line in text.lines() {
                        if serde_json::from_str::<Value>(line).is_ok() {
                            out.write_all(line.as_bytes()).unwrap();
                            out.write_all(b"\n").unwrap();
                            match name {
                                "progs.ndjson" => totals.0 += 1,
                                "rejected.ndjson" => totals.1 += 1,
                                "trace.ndjson" if line.contains("\"e\":\"reset\"") => totals.2 += 1,
                                _ => {}
                            }
                        }
                    }
                }
            }
        }
        out.flush().unwrap();
    }
    let crashed = crashed.into_inner().unwrap();
    std::fs::write(format!("{outdir}/crashed.json"), serde_json::to_string(&crashed).unwrap()).unwrap();
    for w in 0..n_workers {
        let _ = std::fs::remove_dir_all(format!("{outdir}/w{w}"));
    }
    println!("sierra_tool: accepted={} rejected={} runs={} crashed_jobs={}", totals.0, totals.1, totals.2, crashed.len());
}

//! C13 — replay of `CompilerDb.SalsaIncr` histories (TLC `REPLAY` lines, kind "hist") against the real
//! incremental database (`RootDatabase`, `override_file_content!`, on-disk files + revision bump).
//!
//! An abstract history (edits of items `[name, ver, lead, broken]` in 1-2 files, override set/unset,
//! diagnostics/Sierra queries) is concretised into a *script* on a concrete project:
//!   * `synth`    : crate `c13p` = lib.cairo (+ m.cairo), items are small functions with deliberate
//!                  warnings/errors (unused variable, call to `a`, duplicate names, syntax errors);
//!   * `examples` : a copy of <repo>/examples, the items being the top-level functions of two of its files.
//! The script is executed on ONE long-lived database; at every query step and at the end of the history
//! the diagnostics text (with locations) / the Sierra text are compared with those of a FRESH database
//! built on the current contents.  Any difference is reported as a mismatch (= violation of C13).
//! For the canonical synth concretisation the spec's predicted observable is compared as well
//! (model agreement, diagnostic only).
//!
//! usage: incr_replay run <hist.ndjson> <out.ndjson> <workdir> [--threads N] [--projects synth,examples:a.cairo+b.cairo,..]
//!                        [--variants K]
//!        incr_replay script <script.json> <out.ndjson> <workdir>
use std::collections::{BTreeMap, HashMap};
use std::panic::{AssertUnwindSafe, catch_unwind};
use std::path::{Path, PathBuf};
use std::sync::atomic::{AtomicUsize, Ordering};
use std::sync::{Arc, Mutex};

use cairo_lang_compiler::db::RootDatabase;
use cairo_lang_compiler::diagnostics::DiagnosticsReporter;
use cairo_lang_compiler::project::setup_project;
use cairo_lang_compiler::{CompilerConfig, compile_prepared_db_program};
use cairo_lang_filesystem::db::{FilesGroup, files_group_input, init_dev_corelib};
use cairo_lang_filesystem::ids::{CrateInput, FileLongId};
use cairo_lang_filesystem::override_file_content;
use cairo_lang_parser::utils::SimpleParserDatabase;
use cairo_lang_syntax::node::ast::{ModuleItem, SyntaxFile};
use cairo_lang_syntax::node::{TypedSyntaxNode};
use cairo_lang_utils::Intern;
use cvh::util::{NdjsonWriter, Rng, read_ndjson, seed_from_env};
use salsa::Database;
use serde_json::{Value, json};

// ------------------------------------------------------------------------------------------------
// Concrete scripts
// ------------------------------------------------------------------------------------------------

#[derive(Clone, Debug)]
enum CStep {
    /// set / replace the override of `file`
    Ovr { file: String, text: String },
    /// rewrite the file on disk and notify the database (revision bump)
    Disk { file: String, text: String },
    /// remove the override of `file`
    Unset { file: String },
    /// "diag" | "sierra"
    Query { q: String },
}

#[derive(Clone, Debug)]
struct Script {
    /// every file of the project, relative path -> initial text on disk
    files: BTreeMap<String, String>,
    steps: Vec<CStep>,
    /// spec prediction per step (index aligned with `steps`; Null when there is none)
    expect: Vec<Value>,
    /// description of the concretisation (project, style) for the report
    how: Value,
}

fn script_to_json(s: &Script) -> Value {
    let steps: Vec<Value> = s
        .steps
        .iter()
        .map(|st| match st {
            CStep::Ovr { file, text } => json!({"s":"ovr","file":file,"text":text}),
            CStep::Disk { file, text } => json!({"s":"disk","file":file,"text":text}),
            CStep::Unset { file } => json!({"s":"unset","file":file}),
            CStep::Query { q } => json!({"s":"query","q":q}),
        })
        .collect();
    json!({"files": s.files, "steps": steps, "expect": s.expect, "how": s.how})
}

fn script_from_json(v: &Value) -> Script {
    let files = v["files"]
        .as_object()
        .unwrap()
        .iter()
        .map(|(k, t)| (k.clone(), t.as_str().unwrap().to_string()))
        .collect();
    let steps = v["steps"]
        .as_array()
        .unwrap()
        .iter()
        .map(|s| {
            let f = || s["file"].as_str().unwrap().to_string();
            match s["s"].as_str().unwrap() {
                "ovr" => CStep::Ovr { file: f(), text: s["text"].as_str().unwrap().to_string() },
                "disk" => CStep::Disk { file: f(), text: s["text"].as_str().unwrap().to_string() },
                "unset" => CStep::Unset { file: f() },
                "query" => CStep::Query { q: s["q"].as_str().unwrap().to_string() },
                x => panic!("step kind {x}"),
            }
        })
        .collect::<Vec<_>>();
    let expect = v["expect"].as_array().cloned().unwrap_or_default();
    Script { files, steps, expect, how: v["how"].clone() }
}

// ------------------------------------------------------------------------------------------------
// Running against the real database
// ------------------------------------------------------------------------------------------------

const ROOT_TAG: &str = "$ROOT";

struct Session {
    db: RootDatabase,
    crates: Vec<CrateInput>,
    root: PathBuf,
}

impl Session {
    /// A database on the project at `root` (files on disk), corelib taken from the repository under test.
    fn new(root: &Path) -> Session {
        let mut db = RootDatabase::builder().build().expect("db build");
        init_dev_corelib(&mut db, cvh::util::corelib_src());
        let crates = setup_project(&mut db, root).expect("setup_project");
        Session { db, crates, root: root.to_path_buf() }
    }
    fn set_override(&mut self, file: &str, text: Option<&str>) {
        let path = self.root.join(file);
        let db_mut: &mut dyn Database = &mut self.db;
        let file_id = FileLongId::OnDisk(path).intern(db_mut);
        override_file_content!(db_mut, file_id, text.map(|t| t.into()));
    }
    /// The notification after an on-disk change: re-set the overrides input to its current value,
    /// which starts a new revision (on-disk reads are `report_untracked_read`, re-done per revision).
    fn bump(&mut self) {
        let db_mut: &mut dyn Database = &mut self.db;
        let cur = files_group_input(db_mut).file_overrides(db_mut).clone();
        salsa::Setter::to(files_group_input(db_mut).set_file_overrides(db_mut), cur);
    }
    fn norm(&self, s: String) -> String {
        s.replace(self.root.to_str().unwrap(), ROOT_TAG)
    }
    fn diagnostics(&self) -> String {
        let mut s = String::new();
        DiagnosticsReporter::write_to_string(&mut s).with_crates(&self.crates).allow_warnings().check(&self.db);
        self.norm(s)
    }
    fn sierra(&self) -> String {
        let db = &self.db;
        let crate_ids = CrateInput::into_crate_ids(db, self.crates.clone());
        let cfg = CompilerConfig {
            diagnostics_reporter: DiagnosticsReporter::ignoring().with_crates(&self.crates).allow_warnings(),
            replace_ids: true,
            ..Default::default()
        };
        match compile_prepared_db_program(db, crate_ids, cfg) {
            Ok(p) => p.to_string(),
            Err(e) => self.norm(format!("COMPILE-ERROR: {e}")),
        }
    }
}

fn guarded<T>(f: impl FnOnce() -> T) -> Result<T, String> {
    catch_unwind(AssertUnwindSafe(f)).map_err(|e| {
        if let Some(s) = e.downcast_ref::<String>() {
            format!("PANIC: {s}")
        } else if let Some(s) = e.downcast_ref::<&str>() {
            format!("PANIC: {s}")
        } else {
            "PANIC: <non-string payload>".to_string()
        }
    })
}

/// Results of a fresh database per distinct effective contents (shared by all worker threads).
#[derive(Default)]
struct FreshCache {
    map: Mutex<HashMap<(String, String), Arc<String>>>,
    hits: AtomicUsize,
    misses: AtomicUsize,
}

struct Worker {
    dir: PathBuf,
    cache: Arc<FreshCache>,
}

#[derive(Debug)]
struct Mismatch {
    step: usize,
    what: String,
    incr: String,
    fresh: String,
}

struct Outcome {
    checks: usize,
    mismatch: Option<Mismatch>,
    /// (agreeing, disagreeing) comparisons with the spec prediction, and the first disagreement
    model: (usize, usize, Option<Value>),
    model_why: Vec<String>,
    both_panic: usize,
}

impl Worker {
    fn write_files(&self, files: &BTreeMap<String, String>) {
        let _ = std::fs::remove_dir_all(&self.dir);
        for (rel, text) in files {
            let p = self.dir.join(rel);
            std::fs::create_dir_all(p.parent().unwrap()).unwrap();
            std::fs::write(p, text).unwrap();
        }
    }

    /// What a fresh compiler instance says about the current contents (disk + overrides).
    fn fresh(&self, disk: &BTreeMap<String, String>, ovr: &BTreeMap<String, String>, q: &str) -> Arc<String> {
        let mut key = String::new();
        for (k, v) in disk {
            let t = ovr.get(k).unwrap_or(v);
            key.push_str(k);
            key.push('\u{1}');
            key.push_str(t);
            key.push('\u{2}');
        }
        let key = (q.to_string(), key);
        if let Some(v) = self.cache.map.lock().unwrap().get(&key) {
            self.cache.hits.fetch_add(1, Ordering::Relaxed);
            return v.clone();
        }
        self.cache.misses.fetch_add(1, Ordering::Relaxed);
        // Both observables are computed by the same fresh instance (diagnostics first, as `compile` does).
        let (d, s) = {
            let r = guarded(|| {
                let mut fresh = Session::new(&self.dir);
                for (f, t) in ovr {
                    fresh.set_override(f, Some(t));
                }
                let d = fresh.diagnostics();
                let s = fresh.sierra();
                (d, s)
            });
            match r {
                Ok(x) => x,
                Err(p) => (p.clone(), p),
            }
        };
        let (d, s) = (Arc::new(d), Arc::new(s));
        let mut m = self.cache.map.lock().unwrap();
        m.insert(("diag".to_string(), key.1.clone()), d.clone());
        m.insert(("sierra".to_string(), key.1.clone()), s.clone());
        if q == "diag" { d } else { s }
    }

    fn run(&self, script: &Script) -> Outcome {
        self.write_files(&script.files);
        let mut disk = script.files.clone();
        let mut ovr: BTreeMap<String, String> = BTreeMap::new();
        let mut out = Outcome { checks: 0, mismatch: None, model: (0, 0, None), model_why: vec![], both_panic: 0 };
        let mut sess = match guarded(|| Session::new(&self.dir)) {
            Ok(s) => s,
            Err(p) => {
                out.mismatch = Some(Mismatch { step: 0, what: "setup".into(), incr: p, fresh: String::new() });
                return out;
            }
        };
        // One comparison; returns false when the history must stop (mismatch or poisoned database).
        let compare = |sess: &Session,
                           out: &mut Outcome,
                           disk: &BTreeMap<String, String>,
                           ovr: &BTreeMap<String, String>,
                           step: usize,
                           q: &str|
         -> bool {
            let incr = match guarded(|| if q == "diag" { sess.diagnostics() } else { sess.sierra() }) {
                Ok(s) => s,
                Err(p) => p,
            };
            let fresh = self.fresh(disk, ovr, q);
            out.checks += 1;
            if incr.starts_with("PANIC") && fresh.starts_with("PANIC") {
                out.both_panic += 1;
                return false;
            }
            if incr != *fresh {
                out.mismatch =
                    Some(Mismatch { step, what: q.to_string(), incr, fresh: (*fresh).clone() });
                return false;
            }
            true
        };
        // the database has answered a full compile request once (as in the spec's Init)
        if !compare(&sess, &mut out, &disk, &ovr, 0, "diag") || !compare(&sess, &mut out, &disk, &ovr, 0, "sierra")
        {
            return out;
        }
        // Self-test of the binding (C13_SELFTEST=drop_edit): the first content-changing edit is NOT delivered to
        // the long-lived database (a lost invalidation / notification); the comparison must then report a mismatch.
        let mut drop_next = std::env::var("C13_SELFTEST").map(|v| v == "drop_edit").unwrap_or(false);
        for (i, st) in script.steps.iter().enumerate() {
            match st {
                CStep::Ovr { file, text } => {
                    let first = !ovr.contains_key(file);
                    ovr.insert(file.clone(), text.clone());
                    if drop_next && !first {
                        drop_next = false;
                    } else {
                        sess.set_override(file, Some(text));
                    }
                }
                CStep::Unset { file } => {
                    ovr.remove(file);
                    sess.set_override(file, None);
                }
                CStep::Disk { file, text } => {
                    disk.insert(file.clone(), text.clone());
                    std::fs::write(self.dir.join(file), text).unwrap();
                    if drop_next {
                        drop_next = false; // lost notification
                    } else {
                        sess.bump();
                    }
                }
                CStep::Query { q } => {
                    if !compare(&sess, &mut out, &disk, &ovr, i + 1, q) {
                        return out;
                    }
                }
            }
            if let Some(exp) = script.expect.get(i).filter(|e| !e.is_null()) {
                // model agreement is judged on the fresh database's answer (independent of C13 itself)
                let d = self.fresh(&disk, &ovr, "diag");
                let s = self.fresh(&disk, &ovr, "sierra");
                match model_agrees(exp, &d, &s) {
                    None => out.model.0 += 1,
                    Some(why) => {
                        out.model.1 += 1;
                        out.model_why.push(why.chars().filter(|c| !c.is_ascii_digit()).collect());
                        if out.model.2.is_none() {
                            out.model.2 = Some(json!({"step": i + 1, "why": why}));
                        }
                    }
                }
            }
        }
        let n = script.steps.len() + 1;
        if compare(&sess, &mut out, &disk, &ovr, n, "diag") {
            compare(&sess, &mut out, &disk, &ovr, n, "sierra");
        }
        out
    }
}

// ------------------------------------------------------------------------------------------------
// Model agreement (synth project, canonical style)
// ------------------------------------------------------------------------------------------------

/// (file, line, message) triples of a diagnostics text.
fn parse_diags(text: &str) -> Vec<(String, u32, String)> {
    let mut res = vec![];
    let mut msg = String::new();
    for line in text.lines() {
        if line.starts_with("warning") || line.starts_with("error") {
            msg = line.to_string();
        } else if let Some(rest) = line.strip_prefix(" --> ") {
            // $ROOT/lib.cairo:3:9  (possibly with a range suffix)
            let rest = rest.strip_prefix(ROOT_TAG).unwrap_or(rest).trim_start_matches('/');
            let mut it = rest.split(':');
            let file = it.next().unwrap_or("").to_string();
            let ln = it.next().and_then(|x| x.parse::<u32>().ok()).unwrap_or(0);
            res.push((file, ln, msg.clone()));
        }
    }
    res
}

fn kind_matches(kind: &str, msg: &str) -> bool {
    match kind {
        "unused" => msg.contains("Unused variable"),
        "unresolved" => msg.contains("Function not found"),
        "dup" => msg.contains("is defined multiple times"),
        "syntax" => msg.contains("Missing tokens. Expected an expression"),
        _ => false,
    }
}

/// None = agrees; Some(reason) otherwise.  Prediction: every predicted (file, kind, line) is reported,
/// every reported diagnostic of a predicted kind is predicted, compile success flag, function names.
fn model_agrees(exp: &Value, diag: &str, sierra: &str) -> Option<String> {
    let got = parse_diags(diag);
    let fname = |f: u64| if f == 1 { "lib.cairo" } else { "m.cairo" };
    let mut want: Vec<(String, u32, String)> = vec![];
    for d in exp["d"].as_array().unwrap() {
        want.push((
            fname(d["f"].as_u64().unwrap()).to_string(),
            d["l"].as_u64().unwrap() as u32 + 1,
            d["k"].as_str().unwrap().to_string(),
        ));
    }
    for (f, l, k) in &want {
        if !got.iter().any(|(gf, gl, gm)| gf == f && gl == l && kind_matches(k, gm)) {
            return Some(format!("predicted {k} at {f}:{l} not reported"));
        }
    }
    for (gf, gl, gm) in &got {
        for k in ["unused", "unresolved", "dup", "syntax"] {
            if kind_matches(k, gm) && !want.iter().any(|(f, l, wk)| f == gf && l == gl && wk == k) {
                return Some(format!("reported {k} at {gf}:{gl} not predicted"));
            }
        }
    }
    let ok = exp["ok"].as_bool().unwrap();
    let compiled = !sierra.starts_with("COMPILE-ERROR") && !sierra.starts_with("PANIC");
    if ok != compiled {
        return Some(format!("predicted compile ok={ok}, observed {compiled}"));
    }
    if ok {
        for (i, f) in exp["fns"].as_array().unwrap().iter().enumerate() {
            let _ = i;
            let name = f["name"].as_str().unwrap();
            if !sierra.contains(&format!("::{name}@")) {
                return Some(format!("function {name} missing from Sierra"));
            }
        }
    }
    None
}

// ------------------------------------------------------------------------------------------------
// Concretisation of abstract histories
// ------------------------------------------------------------------------------------------------

#[derive(Clone, Debug)]
struct Style {
    /// 0 = blank line, 1 = comment line, 2 = spaces on the same line
    trivia: u8,
    /// 0 = `let x = ;`, 1 = closing brace missing, 2 = `fn a)`, 3 = opening brace missing
    brk: u8,
    /// 0 = the abstract items are functions `fn a()`; 1 = they are impls `ImplA` / `ImplB` of one trait for one
    /// type, observed by a fixed call that is ambiguous when both exist (its diagnostic lists the impls in
    /// order, so the observable depends on the order of the items, not only on the set)
    shape: u8,
}
impl Style {
    fn canonical(&self) -> bool {
        self.trivia <= 1 && self.brk == 0 && self.shape == 0
    }
}

const IMPL_PRELUDE: &str = "pub trait Shape<T> {\n    fn area(self: T) -> felt252;\n}\n#[derive(Drop)]\npub struct S {}\nfn c13_observer() -> felt252 {\n    S {}.area()\n}\n";

/// A piece of a concrete file.
#[derive(Clone, Debug)]
enum Seg {
    Verbatim(String),
    /// synthetic function
    Synth { name: String, ver: u8, lead: bool, broken: bool },
    /// function of a corpus file: text without leading trivia; byte ranges of the name and the
    /// position just after the body's `{` inside `text`
    Corpus { text: String, name: (usize, usize), after_lbrace: usize, renamed: bool, extra: bool, lead: bool, broken: bool },
}

fn lead_text(style: &Style) -> &'static str {
    match style.trivia {
        0 => "\n",
        1 => "// c13 trivia\n",
        _ => "   ",
    }
}

fn render_seg(seg: &Seg, style: &Style, second_file: bool) -> String {
    match seg {
        Seg::Verbatim(t) => t.clone(),
        Seg::Synth { name, ver, lead, broken } if style.shape == 2 => {
            // mutually recursive functions: a calls b and b calls a (whichever exists); never inlined, so the call
            // cycle survives to the gas analysis
            let other = if name == "a" { "b" } else { "a" };
            let callee = if second_file { format!("super::{other}") } else { other.to_string() };
            let mut head = format!("#[inline(never)]\nfn {name}(n: felt252) -> felt252 {{\n");
            let mut body = if *ver == 1 {
                format!("    if n == 0 {{\n        1\n    }} else {{\n        {callee}(n - 1) + 1\n    }}\n")
            } else {
                format!("    let z = 5;\n    if n == 0 {{\n        z\n    }} else {{\n        {callee}(n - 1) + z\n    }}\n")
            };
            let mut tail = "}\n";
            if *broken {
                match style.brk {
                    0 => body = format!("    let x = ;\n{body}"),
                    1 => tail = "\n",
                    2 => head = format!("#[inline(never)]\nfn {name}) -> felt252 {{\n"),
                    _ => head = format!("#[inline(never)]\nfn {name}(n: felt252) -> felt252\n"),
                }
            }
            format!("{}{head}{body}{tail}", if *lead { lead_text(style) } else { "" })
        }
        Seg::Synth { name, ver, lead, broken } if style.shape == 1 => {
            let pre = if second_file { "super::" } else { "" };
            let mut head = format!("impl Impl{} of {pre}Shape<{pre}S> {{\n    fn area(self: {pre}S) -> felt252 {{\n", name.to_uppercase());
            let mut body = if *ver == 1 { "        1\n".to_string() } else { "        let z = 5;\n        z\n".to_string() };
            let mut tail = "    }\n}\n";
            if *broken {
                match style.brk {
                    0 => body = "        let x = ;\n        1\n".into(),
                    1 => tail = "    }\n\n",
                    2 => head = format!("impl Impl{}) of {pre}Shape<{pre}S> {{\n    fn area(self: {pre}S) -> felt252 {{\n", name.to_uppercase()),
                    _ => head = format!("impl Impl{} of {pre}Shape<{pre}S>\n    fn area(self: {pre}S) -> felt252 {{\n", name.to_uppercase()),
                }
            }
            format!("{}{head}{body}{tail}", if *lead { lead_text(style) } else { "" })
        }
        Seg::Synth { name, ver, lead, broken } => {
            let call = if second_file { "super::a()" } else { "a()" };
            let mut head = format!("fn {name}() -> felt252 {{\n");
            let mut first = if *ver == 1 { "    let x = 1;\n".to_string() } else { format!("    let y = {call};\n") };
            let rest = if *ver == 1 { "    2\n" } else { "    let z = 5;\n    y\n" };
            let mut tail = "}\n";
            if *broken {
                match style.brk {
                    0 => first = if *ver == 1 { "    let x = ;\n".into() } else { "    let y = ;\n".into() },
                    1 => tail = "\n",
                    2 => head = format!("fn {name}) -> felt252 {{\n"),
                    _ => head = format!("fn {name}() -> felt252\n"),
                }
            }
            format!("{}{head}{first}{rest}{tail}", if *lead { lead_text(style) } else { "" })
        }
        Seg::Corpus { text, name, after_lbrace, renamed, extra, lead, broken } => {
            let mut t = String::new();
            if *lead {
                t.push_str(lead_text(style));
            }
            t.push_str(&text[..name.1]);
            if *renamed {
                t.push_str("_c13r");
            }
            t.push_str(&text[name.1..*after_lbrace]);
            if *extra {
                t.push_str("\n    let c13_extra = 7;");
            }
            let body = &text[*after_lbrace..];
            if *broken {
                match style.brk {
                    0 => {
                        t.push_str("\n    let c13_b = ;");
                        t.push_str(body);
                    }
                    1 => {
                        // drop the last closing brace
                        match body.rfind('}') {
                            Some(p) => {
                                t.push_str(&body[..p]);
                                t.push_str(&body[p + 1..]);
                            }
                            None => t.push_str(body),
                        }
                    }
                    2 => {
                        t.push_str(" ) ");
                        t.push_str(body);
                    }
                    _ => {
                        // remove the opening brace
                        t.truncate(t.len().min(t.rfind('{').unwrap_or(t.len())));
                        t.push_str(body);
                    }
                }
            } else {
                t.push_str(body);
            }
            t
        }
    }
}

fn render(segs: &[Seg], style: &Style, second_file: bool) -> String {
    segs.iter().map(|s| render_seg(s, style, second_file)).collect()
}

fn is_item(s: &Seg) -> bool {
    !matches!(s, Seg::Verbatim(_))
}

/// Index (into segs) of the k-th item (1-based, wrapping); None when there is no item.
fn nth_item(segs: &[Seg], k: usize, wrap: bool) -> Option<usize> {
    let idx: Vec<usize> = segs.iter().enumerate().filter(|(_, s)| is_item(s)).map(|(i, _)| i).collect();
    if idx.is_empty() {
        return None;
    }
    if wrap { Some(idx[(k.max(1) - 1) % idx.len()]) } else { idx.get(k.checked_sub(1)?).copied() }
}

/// Splits a corpus file into verbatim pieces and its top-level functions.
fn segment_corpus(content: &str) -> Vec<Seg> {
    let db = SimpleParserDatabase::default();
    let (root, _diags) = db.parse_virtual_with_diagnostics(content);
    let file = SyntaxFile::from_syntax_node(&db, root);
    let mut segs = vec![];
    let mut pos = 0usize;
    for item in file.items(&db).elements(&db) {
        if let ModuleItem::FreeFunction(f) = item {
            let node = f.as_syntax_node();
            let start = node.span_start_without_trivia(&db).as_u32() as usize;
            let end = node.span(&db).end.as_u32() as usize;
            let name_span = f.declaration(&db).name(&db).as_syntax_node().span_without_trivia(&db);
            let lbrace_end = f.body(&db).lbrace(&db).as_syntax_node().span_without_trivia(&db).end;
            if start < pos || end > content.len() {
                continue;
            }
            segs.push(Seg::Verbatim(content[pos..start].to_string()));
            segs.push(Seg::Corpus {
                text: content[start..end].to_string(),
                name: (name_span.start.as_u32() as usize - start, name_span.end.as_u32() as usize - start),
                after_lbrace: lbrace_end.as_u32() as usize - start,
                renamed: false,
                extra: false,
                lead: false,
                broken: false,
            });
            pos = end;
        }
    }
    segs.push(Seg::Verbatim(content[pos..].to_string()));
    segs
}

struct Layered {
    rel: String,
    disk: Vec<Seg>,
    ovr: Option<Vec<Seg>>,
}

fn abstract_item(v: &Value) -> Seg {
    Seg::Synth {
        name: v["name"].as_str().unwrap().to_string(),
        ver: v["ver"].as_u64().unwrap() as u8,
        lead: v["lead"].as_u64().unwrap() == 1,
        broken: v["broken"].as_bool().unwrap(),
    }
}

/// Applies abstract edit `op` to the item sequence (wrap = corpus mode: indices are taken modulo).
fn apply_edit(segs: &mut Vec<Seg>, op: &str, i: usize, nm: &str, wrap: bool, max_items: usize) -> bool {
    let n_items = segs.iter().filter(|s| is_item(s)).count();
    if op == "insert" {
        if wrap && n_items >= max_items {
            return false;
        }
        // after the i-th item (0 = before the first one)
        let at = if i == 0 || n_items == 0 {
            nth_item(segs, 1, false).unwrap_or(segs.len())
        } else {
            nth_item(segs, i, wrap).unwrap() + 1
        };
        segs.insert(at, Seg::Synth { name: nm.to_string(), ver: 1, lead: false, broken: false });
        return true;
    }
    let Some(at) = nth_item(segs, i, wrap) else { return false };
    match op {
        "delete" => {
            segs.remove(at);
        }
        "dup" => {
            if wrap && n_items >= max_items {
                return false;
            }
            let c = segs[at].clone();
            segs.insert(at + 1, c);
        }
        _ => match &mut segs[at] {
            Seg::Synth { name, ver, lead, broken } => match op {
                "trivia" => *lead = !*lead,
                "rename" => *name = if name == "a" { "b".into() } else { "a".into() },
                "body" => *ver = 3 - *ver,
                "break" | "repair" => *broken = !*broken,
                x => panic!("op {x}"),
            },
            Seg::Corpus { renamed, extra, lead, broken, .. } => match op {
                "trivia" => *lead = !*lead,
                "rename" => *renamed = !*renamed,
                "body" => *extra = !*extra,
                "break" | "repair" => *broken = !*broken,
                x => panic!("op {x}"),
            },
            Seg::Verbatim(_) => unreachable!(),
        },
    }
    true
}

#[derive(Clone, Debug)]
enum Project {
    Synth,
    /// directory under <repo> holding a cairo_project.toml, and the two files that play f1, f2
    Corpus { dir: String, f1: String, f2: String },
}

fn read_tree(dir: &Path, base: &Path, out: &mut BTreeMap<String, String>) {
    let mut ents: Vec<_> = std::fs::read_dir(dir).unwrap().map(|e| e.unwrap().path()).collect();
    ents.sort();
    for p in ents {
        if p.is_dir() {
            read_tree(&p, base, out);
        } else if p.extension().map(|e| e == "cairo" || e == "toml").unwrap_or(false) {
            out.insert(p.strip_prefix(base).unwrap().to_str().unwrap().to_string(), std::fs::read_to_string(&p).unwrap());
        }
    }
}

/// Concretises one abstract history.
fn concretise(h: &Value, project: &Project, style: &Style, with_expect: bool) -> Script {
    let nfiles = h["nfiles"].as_u64().unwrap() as usize;
    let mut files: BTreeMap<String, String> = BTreeMap::new();
    let mut layers: Vec<Layered> = vec![];
    let wrap;
    match project {
        Project::Synth => {
            wrap = false;
            files.insert(
                "cairo_project.toml".into(),
                "[crate_roots]\nc13p = \".\"\n\n[config.global]\nedition = \"2024_07\"\n".into(),
            );
            for f in 0..nfiles {
                let mut segs = vec![];
                if f == 0 && nfiles == 2 {
                    segs.push(Seg::Verbatim("mod m;\n".into()));
                }
                if f == 0 && style.shape == 1 {
                    segs.push(Seg::Verbatim(IMPL_PRELUDE.into()));
                }
                for it in h["init"][f].as_array().unwrap() {
                    segs.push(abstract_item(it));
                }
                layers.push(Layered { rel: if f == 0 { "lib.cairo".into() } else { "m.cairo".into() }, disk: segs, ovr: None });
            }
        }
        Project::Corpus { dir, f1, f2 } => {
            wrap = true;
            let base = PathBuf::from(cvh::util::repo_root()).join(dir);
            read_tree(&base, &base, &mut files);
            for f in [f1, f2].iter().take(nfiles.max(1)) {
                let segs = segment_corpus(&files[*f]);
                layers.push(Layered { rel: (*f).clone(), disk: segs, ovr: None });
            }
        }
    }
    for (li, l) in layers.iter().enumerate() {
        files.insert(l.rel.clone(), render(&l.disk, style, li == 1));
    }
    let mut steps = vec![];
    let mut expect = vec![];
    for op in h["ops"].as_array().unwrap() {
        let name = op["op"].as_str().unwrap();
        let f = op["f"].as_u64().unwrap() as usize;
        let i = op["i"].as_u64().unwrap() as usize;
        let nm = op["nm"].as_str().unwrap();
        let q = op["q"].as_str().unwrap();
        let exp = if with_expect { op["exp"].clone() } else { Value::Null };
        let mut emitted = 0;
        match name {
            "query" => {}
            "setovr" => {
                let l = &mut layers[f - 1];
                if l.ovr.is_none() {
                    l.ovr = Some(l.disk.clone());
                    steps.push(CStep::Ovr { file: l.rel.clone(), text: render(&l.disk, style, f == 2) });
                    emitted += 1;
                }
            }
            "unsetovr" => {
                let l = &mut layers[f - 1];
                if l.ovr.is_some() {
                    l.ovr = None;
                    steps.push(CStep::Unset { file: l.rel.clone() });
                    emitted += 1;
                }
            }
            _ => {
                let l = &mut layers[f - 1];
                let second = f == 2;
                if let Some(o) = l.ovr.as_mut() {
                    if apply_edit(o, name, i, nm, wrap, 6) {
                        steps.push(CStep::Ovr { file: l.rel.clone(), text: render(o, style, second) });
                        emitted += 1;
                    }
                } else if apply_edit(&mut l.disk, name, i, nm, wrap, 6) {
                    steps.push(CStep::Disk { file: l.rel.clone(), text: render(&l.disk, style, second) });
                    emitted += 1;
                }
            }
        }
        let fused = if name == "query" { q } else if q != "none" { q } else { "" };
        if !fused.is_empty() {
            steps.push(CStep::Query { q: fused.to_string() });
            emitted += 1;
        }
        // the prediction describes the state after the whole abstract step: attach it to the last concrete step
        for k in 0..emitted {
            expect.push(if k + 1 == emitted { exp.clone() } else { Value::Null });
        }
    }
    let how = match project {
        Project::Synth => json!({"project":"synth","trivia":style.trivia,"brk":style.brk,"shape":style.shape}),
        Project::Corpus { dir, f1, f2 } => json!({"project":dir,"f1":f1,"f2":f2,"trivia":style.trivia,"brk":style.brk}),
    };
    Script { files, steps, expect, how }
}

// ------------------------------------------------------------------------------------------------

fn parse_projects(spec: &str) -> Vec<Project> {
    spec.split(',')
        .filter(|s| !s.is_empty())
        .map(|s| {
            if s == "synth" {
                Project::Synth
            } else {
                // dir:f1+f2
                let (dir, fs) = s.split_once(':').expect("project spec dir:f1+f2");
                let (f1, f2) = fs.split_once('+').expect("project spec dir:f1+f2");
                Project::Corpus { dir: dir.into(), f1: f1.into(), f2: f2.into() }
            }
        })
        .collect()
}

fn main() {
    let args: Vec<String> = std::env::args().collect();
    let mode = args.get(1).map(|s| s.as_str()).unwrap_or("");
    let inp = &args[2];
    let outp = &args[3];
    let workdir = PathBuf::from(&args[4]);
    let mut threads = 8usize;
    let mut projects = vec![Project::Synth];
    let mut variants = 1usize;
    let mut i = 5;
    while i < args.len() {
        match args[i].as_str() {
            "--threads" => {
                threads = args[i + 1].parse().unwrap();
                i += 2;
            }
            "--projects" => {
                projects = parse_projects(&args[i + 1]);
                i += 2;
            }
            "--variants" => {
                variants = args[i + 1].parse().unwrap();
                i += 2;
            }
            x => panic!("unknown arg {x}"),
        }
    }
    // silence panic messages of the code under test (they are captured and reported)
    std::panic::set_hook(Box::new(|_| {}));

    // ---- build the list of scripts
    let mut scripts: Vec<(Value, Script)> = vec![];
    if mode == "script" {
        let v: Value = serde_json::from_str(&std::fs::read_to_string(inp).unwrap()).unwrap();
        let s = if v.get("replay").is_some() { &v["replay"]["script"] } else { &v };
        scripts.push((json!({"id":"replay"}), script_from_json(s)));
    } else {
        let hists = read_ndjson(inp);
        let seed = seed_from_env();
        for (hi, h) in hists.iter().enumerate() {
            for p in &projects {
                for v in 0..variants {
                    let mut rng = Rng::new(seed ^ ((hi as u64) << 20) ^ ((v as u64) << 8) ^ 0xc13);
                    // variant 0 of the synth project is the canonical rendering the spec predicts
                    let style = if v == 0 && matches!(p, Project::Synth) {
                        Style { trivia: rng.below(2) as u8, brk: 0, shape: 0 }
                    } else {
                        let shape = if matches!(p, Project::Synth) { rng.below(3) as u8 } else { 0 };
                        Style { trivia: rng.below(3) as u8, brk: rng.below(4) as u8, shape }
                    };
                    let with_expect = matches!(p, Project::Synth) && style.canonical();
                    let s = concretise(h, p, &style, with_expect);
                    scripts.push((json!({"hist": hi, "variant": v, "how": s.how}), s));
                }
            }
        }
    }

    if mode == "dump" {
        let mut out = NdjsonWriter::create(outp);
        for (meta, s) in &scripts {
            out.write(&json!({"meta": meta, "script": script_to_json(s)}));
        }
        out.finish();
        return;
    }
    // ---- run
    let cache = Arc::new(FreshCache::default());
    let next = AtomicUsize::new(0);
    let results: Mutex<Vec<Value>> = Mutex::new(vec![]);
    let totals = Mutex::new((0usize, 0usize, 0usize, 0usize, 0usize, 0usize)); // scripts, checks, agree, disagree, steps, both_panic
    let first_disagree: Mutex<Option<Value>> = Mutex::new(None);
    let why_hist: Mutex<BTreeMap<String, usize>> = Mutex::new(BTreeMap::new());
    std::thread::scope(|sc| {
        for t in 0..threads.min(scripts.len().max(1)) {
            let cache = cache.clone();
            let (next, results, totals, scripts, first_disagree, workdir, why_hist) =
                (&next, &results, &totals, &scripts, &first_disagree, &workdir, &why_hist);
            std::thread::Builder::new()
                .stack_size(256 << 20)
                .spawn_scoped(sc, move || {
                    let w = Worker { dir: workdir.join(format!("w{t}")).join("proj"), cache };
                    loop {
                        let k = next.fetch_add(1, Ordering::Relaxed);
                        if k >= scripts.len() {
                            break;
                        }
                        let (meta, script) = &scripts[k];
                        let o = w.run(script);
                        {
                            let mut tt = totals.lock().unwrap();
                            tt.0 += 1;
                            tt.1 += o.checks;
                            tt.2 += o.model.0;
                            tt.3 += o.model.1;
                            tt.4 += script.steps.len();
                            tt.5 += o.both_panic;
                        }
                        for w in &o.model_why {
                            *why_hist.lock().unwrap().entry(w.clone()).or_insert(0) += 1;
                        }
                        if let Some(d) = o.model.2 {
                            let mut fd = first_disagree.lock().unwrap();
                            if fd.is_none() {
                                *fd = Some(json!({"meta": meta, "at": d, "script": script_to_json(script)}));
                            }
                        }
                        if let Some(m) = o.mismatch {
                            results.lock().unwrap().push(json!({
                                "mismatch": {"step": m.step, "what": m.what, "incr": m.incr, "fresh": m.fresh},
                                "meta": meta,
                                "script": script_to_json(script),
                            }));
                        }
                    }
                    let _ = std::fs::remove_dir_all(workdir.join(format!("w{t}")));
                })
                .unwrap();
        }
    });
    let mut out = NdjsonWriter::create(outp);
    let tt = totals.lock().unwrap();
    let res = results.lock().unwrap();
    out.write(&json!({"summary": {
        "scripts": tt.0, "comparisons": tt.1, "steps": tt.4, "mismatches": res.len(),
        "model_agree": tt.2, "model_disagree": tt.3, "both_panic": tt.5,
        "fresh_dbs": cache.misses.load(Ordering::Relaxed), "fresh_cache_hits": cache.hits.load(Ordering::Relaxed),
        "first_model_disagreement": *first_disagree.lock().unwrap(),
        "model_disagreement_kinds": *why_hist.lock().unwrap(),
    }}));
    for r in res.iter() {
        out.write(r);
    }
    out.finish();
}

//! C03 / L2 — generator of `LibfuncSound` instances (DESIGN 3.6).
//!
//! usage:
//!   libfunc_air gen <jobs.ndjson> <outdir> <result.ndjson>
//!       every job `{name, cairo, init:[tla...], post: tla}` is compiled with the real compiler; the
//!       real CASM of the wrapper function `foo` is turned into a TLA+ module `<outdir>/<name>/LS_<name>.tla`
//!       with one action per CASM instruction in AIR form (module CairoAir); `init` constrains the
//!       input cells, `post` is the mathematical post-condition evaluated at every `ret`.
//!       Symbols available to init/post: A1..An (explicit parameter cells), RC0, GAS0 (implicits at
//!       entry); in post additionally R1..Rm (result cells), RC1, GAS1, RCD, GASD, and GASC<k> (the
//!       compiler's withdraw amount of the k-th withdraw_gas statement).
//!   libfunc_air replay <cex.json> <out.json>
//!       `{name, cairo, args:[dec...], cells:{"<k>": dec}}` (cells relative to the wrapper's fp): runs
//!       the wrapper on the real VM honestly and with the program's hints scripted from the model
//!       memory; reports both results.
#[path = "../c03_common.rs"]
mod c03_common;

use std::collections::BTreeMap;
use std::fmt::Write as _;
use std::path::Path;

use c03_common::*;
use cairo_lang_casm::instructions::{Instruction, InstructionBody};
use cairo_lang_casm::operand::{CellRef, DerefOrImmediate, Operation, Register, ResOperand};
use cairo_lang_sierra::program::Statement;
use cvh::util::{NdjsonWriter, read_ndjson};
use num_bigint::BigInt;
use num_traits::{Signed, ToPrimitive, Zero};
use rayon::prelude::*;
use serde_json::{Value, json};

const FP: i64 = 60;
const RCB: i64 = 1000;
const RC_CELLS: i64 = 24;
const SEGB: i64 = 2000; // other builtin / pointer parameters (unconstrained cells)

fn canon(v: &BigInt) -> BigInt {
    let p = prime();
    ((v % &p) + &p) % &p
}
fn signed_rep(v: &BigInt) -> BigInt {
    let p = prime();
    let c = canon(v);
    if &c * 2 > p { c - p } else { c }
}
fn lit(v: &BigInt) -> String {
    if v.is_negative() { format!("({v})") } else { format!("{v}") }
}

struct Gen<'a> {
    ins: &'a [Instruction],
    word: Vec<usize>,
    word_to_idx: BTreeMap<usize, usize>,
}

#[derive(Debug)]
struct Unsupported(String);

impl<'a> Gen<'a> {
    /// address of a cell at a node whose static `ap - fp` is `ap`
    fn addr(&self, ap: i64, c: &CellRef) -> i64 {
        match c.register {
            Register::AP => FP + ap + c.offset as i64,
            Register::FP => FP + c.offset as i64,
        }
    }
    fn target(&self, n: usize, t: &DerefOrImmediate) -> Result<usize, Unsupported> {
        match t {
            DerefOrImmediate::Immediate(v) => {
                let w = self.word[n] as i64 + v.value.to_i64().ok_or(Unsupported("jump offset".into()))?;
                self.word_to_idx
                    .get(&(w as usize))
                    .cloned()
                    .ok_or(Unsupported(format!("jump target {w} is not an instruction")))
            }
            DerefOrImmediate::Deref(_) => Err(Unsupported("data-dependent jump".into())),
        }
    }
    fn succ(&self, n: usize) -> Result<Vec<usize>, Unsupported> {
        Ok(match &self.ins[n].body {
            InstructionBody::Ret(_) => vec![],
            InstructionBody::Jump(j) => {
                if !j.relative {
                    return Err(Unsupported("jmp abs".into()));
                }
                vec![self.target(n, &j.target)?]
            }
            InstructionBody::Jnz(j) => vec![n + 1, self.target(n, &j.jump_offset)?],
            InstructionBody::Call(_) => return Err(Unsupported("call".into())),
            InstructionBody::AddAp(_) | InstructionBody::AssertEq(_) => vec![n + 1],
            InstructionBody::QM31AssertEq(_) => return Err(Unsupported("qm31".into())),
            InstructionBody::Blake2sCompress(_) => return Err(Unsupported("blake".into())),
        })
    }
    fn ap_delta(&self, n: usize) -> Result<i64, Unsupported> {
        let i = &self.ins[n];
        let mut d = if i.inc_ap { 1 } else { 0 };
        if let InstructionBody::AddAp(a) = &i.body {
            match &a.operand {
                ResOperand::Immediate(v) => d += v.value.to_i64().ok_or(Unsupported("ap += big".into()))?,
                _ => return Err(Unsupported("ap += non-immediate".into())),
            }
        }
        Ok(d)
    }
}

struct Layout {
    /// (symbol, address) of entry cells
    entry_syms: Vec<(String, i64)>,
    /// explicit parameter cells in order (addresses)
    arg_cells: Vec<i64>,
    /// (symbol, offset from the top: address = ap - total + off)
    ret_syms: Vec<(String, i64)>,
    ret_total: i64,
    params_total: i64,
    has_rc: bool,
    has_gas: bool,
    other_builtins: Vec<String>,
}

fn generate(name: &str, job: &Value, c: &Compiled) -> Result<(String, Value), Unsupported> {
    let b = &c.builder;
    let func = b.find_function("::foo").map_err(|e| Unsupported(format!("no foo: {e}")))?.clone();
    let cp = b.casm_program();
    let ins = &cp.instructions;
    let mut word = vec![];
    let mut w = 0usize;
    let mut word_to_idx = BTreeMap::new();
    for (i, x) in ins.iter().enumerate() {
        word.push(w);
        word_to_idx.insert(w, i);
        w += x.body.op_size();
    }
    let entry = cp.debug_info.sierra_statement_info[func.entry_point.0].instruction_idx;
    let g = Gen { ins, word, word_to_idx };

    // reachable nodes (instruction, static ap - fp): an instruction reached with different ap values
    // (branches that merge without alignment) gets one action per value; longest path
    let mut nodes: std::collections::BTreeSet<(usize, i64)> = Default::default();
    let mut stack = vec![(entry, 0i64)];
    while let Some((n, ap)) = stack.pop() {
        if n >= ins.len() {
            return Err(Unsupported("falls off the end".into()));
        }
        if !nodes.insert((n, ap)) {
            continue;
        }
        if nodes.len() > 400 {
            return Err(Unsupported("too many (instruction, ap) nodes".into()));
        }
        let d = g.ap_delta(n)?;
        for s in g.succ(n)? {
            if s <= n {
                return Err(Unsupported("backward jump".into()));
            }
            stack.push((s, ap + d));
        }
    }
    let reach: Vec<(usize, i64)> = nodes.iter().cloned().collect();
    let mut longest: BTreeMap<(usize, i64), usize> = BTreeMap::new();
    for &(n, ap) in reach.iter().rev() {
        let d = g.ap_delta(n)?;
        let l = g.succ(n)?.iter().map(|s| longest[&(*s, ap + d)]).max().unwrap_or(0) + 1;
        longest.insert((n, ap), l);
    }

    // layout of parameters and results
    let mut lay = Layout {
        entry_syms: vec![],
        arg_cells: vec![],
        ret_syms: vec![],
        ret_total: 0,
        params_total: 0,
        has_rc: false,
        has_gas: false,
        other_builtins: vec![],
    };
    let psizes: Vec<(String, i64, bool)> = func
        .signature
        .param_types
        .iter()
        .map(|t| {
            let gid = b.type_long_id(t).generic_id.clone();
            (gid.0.to_string(), b.type_size(t) as i64, b.is_user_arg_type(&gid))
        })
        .collect();
    lay.params_total = psizes.iter().map(|x| x.1).sum();
    let mut at = FP - 2 - lay.params_total;
    let mut ai = 0;
    for (gid, sz, user) in &psizes {
        if *user {
            for k in 0..*sz {
                ai += 1;
                lay.entry_syms.push((format!("A{ai}"), at + k));
                lay.arg_cells.push(at + k);
            }
        } else {
            match gid.as_str() {
                "RangeCheck" => {
                    lay.has_rc = true;
                    lay.entry_syms.push(("RC0".into(), at));
                }
                "GasBuiltin" => {
                    lay.has_gas = true;
                    lay.entry_syms.push(("GAS0".into(), at));
                }
                other => lay.other_builtins.push(other.to_string()),
            }
        }
        at += sz;
    }
    if !lay.other_builtins.is_empty() {
        return Err(Unsupported(format!("builtin parameter {:?}", lay.other_builtins)));
    }
    let rsizes: Vec<(String, i64, bool)> = func
        .signature
        .ret_types
        .iter()
        .map(|t| {
            let gid = b.type_long_id(t).generic_id.clone();
            (gid.0.to_string(), b.type_size(t) as i64, b.is_user_arg_type(&gid))
        })
        .collect();
    lay.ret_total = rsizes.iter().map(|x| x.1).sum();
    let mut off = 0;
    let mut ri = 0;
    for (gid, sz, user) in &rsizes {
        if *user {
            for k in 0..*sz {
                ri += 1;
                lay.ret_syms.push((format!("R{ri}"), off + k));
            }
        } else if gid == "RangeCheck" {
            lay.ret_syms.push(("RC1".into(), off));
        } else if gid == "GasBuiltin" {
            lay.ret_syms.push(("GAS1".into(), off));
        }
        off += sz;
    }

    // withdraw amounts chosen by the compiler's gas solver (constants of the post-condition)
    let mut gas_consts: Vec<(String, i64)> = vec![];
    {
        let prog = b.sierra_program();
        let mut k = 0;
        for (i, st) in prog.statements.iter().enumerate() {
            if let Statement::Invocation(inv) = st {
                let nm = prog
                    .libfunc_declarations
                    .iter()
                    .find(|d| d.id == inv.libfunc_id)
                    .map(|d| d.long_id.generic_id.0.to_string())
                    .unwrap_or_default();
                if nm == "withdraw_gas" || nm == "withdraw_gas_all" || nm == "redeposit_gas" {
                    k += 1;
                    let v: i64 = b
                        .metadata()
                        .gas_info
                        .variable_values
                        .iter()
                        .filter(|((s, tok), _)| s.0 == i && format!("{tok:?}") == "Const")
                        .map(|(_, v)| *v)
                        .sum();
                    gas_consts.push((format!("GASC{k}"), v));
                }
            }
        }
    }

    // domain
    let max_ap: i64 = reach.iter().map(|(n, ap)| ap + g.ap_delta(*n).unwrap_or(0)).max().unwrap_or(0);
    let mut lo = FP - 2 - lay.params_total;
    let mut hi = FP + max_ap + 1;
    let mut note_cell = |a: i64| {
        if a < lo {
            lo = a;
        }
        if a > hi {
            hi = a;
        }
    };
    for &(n, ap) in &reach {
        let i = &ins[n];
        let mut cells: Vec<&CellRef> = vec![];
        match &i.body {
            InstructionBody::AssertEq(a) => {
                cells.push(&a.a);
                match &a.b {
                    ResOperand::Deref(c) => cells.push(c),
                    ResOperand::DoubleDeref(c, _) => cells.push(c),
                    ResOperand::Immediate(_) => {}
                    ResOperand::BinOp(bo) => {
                        cells.push(&bo.a);
                        if let DerefOrImmediate::Deref(c) = &bo.b {
                            cells.push(c);
                        }
                    }
                }
            }
            InstructionBody::Jnz(j) => cells.push(&j.condition),
            _ => {}
        }
        for c in cells {
            note_cell(g.addr(ap, c));
        }
    }
    if lo < 1 || hi >= RCB {
        return Err(Unsupported(format!("stack window {lo}..{hi} does not fit")));
    }

    // ---- module text
    let module = format!("LS_{name}");
    let mut t = String::new();
    let _ = writeln!(t, "---- MODULE {module} ----");
    let _ = writeln!(t, "\\* GENERATED by harness/src/bin/libfunc_air.rs from the real CASM of the wrapper. Do not edit.");
    for l in job["cairo"].as_str().unwrap_or("").lines() {
        let _ = writeln!(t, "\\*   {l}");
    }
    let _ = writeln!(t, "EXTENDS Integers, CairoAir, IntOpsPost\n");
    let _ = writeln!(t, "Stack == {lo}..{hi}");
    let _ = writeln!(t, "RCSeg == {RCB}..{}", RCB + RC_CELLS - 1);
    let _ = writeln!(t, "Dom == Stack \\union RCSeg\n");
    let _ = writeln!(t, "VARIABLES\n  \\* @type: Int -> Int;\n  mem,\n  \\* @type: Int;\n  pc,\n  \\* @type: Int;\n  ap\n");
    for (s, a) in &lay.entry_syms {
        let _ = writeln!(t, "{s} == mem[{a}]");
    }
    for (s, v) in &gas_consts {
        let _ = writeln!(t, "{s} == {v}");
    }
    let _ = writeln!(t, "\n\\* [[a]] : a read through a pointer; outside the modelled window the cell is unconstrained");
    let _ = writeln!(t, "Rd(v, a) == (a \\in Dom) => v = mem[a]\n");
    let _ = writeln!(t, "Init ==");
    let _ = writeln!(t, "  /\\ mem \\in [Dom -> Int]");
    let _ = writeln!(t, "  /\\ \\A a \\in Dom : InField(mem[a])");
    let _ = writeln!(t, "  /\\ \\A a \\in RCSeg : mem[a] < RC128");
    if lay.has_rc {
        let _ = writeln!(t, "  /\\ RC0 = {RCB}");
    }
    for c in job["init"].as_array().cloned().unwrap_or_default() {
        let _ = writeln!(t, "  /\\ {}", c.as_str().unwrap_or("TRUE"));
    }
    let _ = writeln!(t, "  /\\ pc = {entry}\n  /\\ ap = {FP}\n");

    let done = ins.len();
    let mut rets: Vec<(usize, i64)> = vec![];
    let mut nonlinear = 0;
    let act = |n: usize, ap: i64| format!("I{n}_{ap}");
    let cname = |n: usize, ap: i64| format!("C{n}_{ap}");
    // per node: the instruction's constraint on memory as an operator, its pc update, its ap delta
    let mut node_next: BTreeMap<(usize, i64), String> = BTreeMap::new();
    let mut node_succ: BTreeMap<(usize, i64), Vec<(usize, i64)>> = BTreeMap::new();
    for &(n, ap) in &reach {
        let i = &ins[n];
        let text = format!("{i}").replace('\n', " ");
        let _ = writeln!(t, "\\* {n}: {text}      (ap = fp + {ap})");
        let d = g.ap_delta(n)?;
        let mut cons: Vec<String> = vec![];
        let next: String;
        match &i.body {
            InstructionBody::Ret(_) => {
                rets.push((n, ap));
                next = format!("{done}");
            }
            InstructionBody::Jump(_) => next = format!("{}", g.succ(n)?[0]),
            InstructionBody::Jnz(j) => {
                let s = g.succ(n)?;
                next = format!("IF mem[{}] # 0 THEN {} ELSE {}", g.addr(ap, &j.condition), s[1], s[0]);
            }
            InstructionBody::AddAp(_) => next = format!("{}", n + 1),
            InstructionBody::AssertEq(a) => {
                next = format!("{}", n + 1);
                let dst = format!("mem[{}]", g.addr(ap, &a.a));
                cons.push(match &a.b {
                    ResOperand::Deref(c) => format!("{dst} = mem[{}]", g.addr(ap, c)),
                    ResOperand::Immediate(v) => format!("{dst} = {}", canon(&v.value)),
                    ResOperand::DoubleDeref(c, o) => format!("Rd({dst}, mem[{}] + {})", g.addr(ap, c), lit(&BigInt::from(*o))),
                    ResOperand::BinOp(bo) => {
                        let x = format!("mem[{}]", g.addr(ap, &bo.a));
                        match (&bo.op, &bo.b) {
                            (Operation::Add, DerefOrImmediate::Deref(c)) => {
                                format!("AddP({dst}, {x}, mem[{}])", g.addr(ap, c))
                            }
                            (Operation::Add, DerefOrImmediate::Immediate(v)) => {
                                format!("AddC({dst}, {x}, {})", lit(&signed_rep(&v.value)))
                            }
                            (Operation::Mul, DerefOrImmediate::Deref(c)) => {
                                nonlinear += 1;
                                format!("MulP({dst}, {x}, mem[{}])", g.addr(ap, c))
                            }
                            (Operation::Mul, DerefOrImmediate::Immediate(v)) => {
                                format!("MulC({dst}, {x}, {})", lit(&signed_rep(&v.value)))
                            }
                        }
                    }
                });
            }
            _ => return Err(Unsupported("instruction kind".into())),
        }
        let _ = writeln!(t, "{} == {}\n", cname(n, ap), cons.first().cloned().unwrap_or("TRUE".into()));
        node_next.insert((n, ap), next);
        node_succ.insert((n, ap), g.succ(n)?.into_iter().map(|s| (s, ap + d)).collect());
    }
    // actions: one per instruction ("instr") or one per straight-line block of instructions ("block":
    // the conjunction of the block's instruction constraints; a `ret` is always a block of its own so
    // that the state at the `ret` exists)
    let big_step = job.get("step").and_then(|s| s.as_str()).unwrap_or("block") == "block";
    let mut preds: BTreeMap<(usize, i64), usize> = BTreeMap::new();
    for ss in node_succ.values() {
        for s in ss {
            *preds.entry(*s).or_default() += 1;
        }
    }
    let is_ret = |x: &(usize, i64)| matches!(ins[x.0].body, InstructionBody::Ret(_));
    let is_leader = |x: &(usize, i64)| -> bool {
        if !big_step || *x == (entry, 0) || is_ret(x) || preds.get(x).cloned().unwrap_or(0) != 1 {
            return true;
        }
        // single predecessor: leader iff that predecessor branches
        let p = node_succ.iter().find(|(_, ss)| ss.contains(x)).map(|(p, _)| *p).unwrap();
        node_succ[&p].len() != 1
    };
    let mut leaders: Vec<(usize, i64)> = vec![];
    let mut block_len: BTreeMap<(usize, i64), usize> = BTreeMap::new();
    for x in &reach {
        if !is_leader(x) {
            continue;
        }
        leaders.push(*x);
        let mut chain = vec![*x];
        loop {
            let last = *chain.last().unwrap();
            let ss = &node_succ[&last];
            if ss.len() != 1 || is_leader(&ss[0]) {
                break;
            }
            chain.push(ss[0]);
        }
        let last = *chain.last().unwrap();
        let total: i64 = chain.iter().map(|c| g.ap_delta(c.0).unwrap_or(0)).sum();
        let _ = writeln!(t, "{} ==\n  /\\ pc = {}\n  /\\ ap = {}", act(x.0, x.1), x.0, FP + x.1);
        for c in &chain {
            let _ = writeln!(t, "  /\\ {}", cname(c.0, c.1));
        }
        let _ = writeln!(t, "  /\\ pc' = {}\n  /\\ ap' = ap + {total}\n  /\\ UNCHANGED mem\n", node_next[&last]);
        block_len.insert(*x, chain.len());
    }
    // longest path counted in actions
    let mut blongest: BTreeMap<(usize, i64), usize> = BTreeMap::new();
    for x in leaders.iter().rev() {
        // walk to the end of the block
        let mut last = *x;
        loop {
            let ss = &node_succ[&last];
            if ss.len() != 1 || is_leader(&ss[0]) {
                break;
            }
            last = ss[0];
        }
        let l = node_succ[&last].iter().map(|s| blongest[s]).max().unwrap_or(0) + 1;
        blongest.insert(*x, l);
    }
    let length = blongest[&(entry, 0)] + 1;
    let _ = length_unused(longest[&(entry, 0)]);
    let _ = writeln!(t, "Done == pc = {done} /\\ UNCHANGED <<mem, pc, ap>>\n");
    let _ = writeln!(t, "Next ==");
    for &(n, ap) in &leaders {
        let _ = writeln!(t, "  \\/ {}", act(n, ap));
    }
    let _ = writeln!(t, "  \\/ Done\n");
    let _ = writeln!(t, "\\* the static ap used for the cell addresses above agrees with the ap register");
    let _ = writeln!(t, "ApOK ==");
    let instrs: std::collections::BTreeSet<usize> = reach.iter().map(|x| x.0).collect();
    let leader_instrs: std::collections::BTreeSet<usize> = leaders.iter().map(|x| x.0).collect();
    for &n in &leader_instrs {
        let aps: Vec<String> = leaders.iter().filter(|x| x.0 == n).map(|x| format!("{}", FP + x.1)).collect();
        let _ = writeln!(t, "  /\\ (pc = {n} => ap \\in {{{}}})", aps.join(", "));
    }
    let _ = writeln!(t, "  /\\ pc \\in {{{}, {done}}}", leader_instrs.iter().map(|n| n.to_string()).collect::<Vec<_>>().join(", "));
    let post = job["post"].as_str().unwrap_or("TRUE");
    let _ = writeln!(t, "\nSound ==\n  /\\ ApOK");
    for &(r, rap) in &rets {
        let top = FP + rap;
        let _ = writeln!(t, "  /\\ ((pc = {r} /\\ ap = {top}) =>\n        LET");
        let mut any = false;
        for (s, o) in &lay.ret_syms {
            let _ = writeln!(t, "          {s} == mem[{}]", top - lay.ret_total + o);
            any = true;
        }
        if lay.ret_syms.iter().any(|(s, _)| s == "RC1") && lay.has_rc {
            let _ = writeln!(t, "          RCD == mem[{}] - RC0", top - lay.ret_total + lay.ret_syms.iter().find(|(s, _)| s == "RC1").unwrap().1);
            any = true;
        }
        if lay.ret_syms.iter().any(|(s, _)| s == "GAS1") && lay.has_gas {
            let _ = writeln!(t, "          GASD == GAS0 - mem[{}]", top - lay.ret_total + lay.ret_syms.iter().find(|(s, _)| s == "GAS1").unwrap().1);
            any = true;
        }
        if !any {
            let _ = writeln!(t, "          Unused == 0");
        }
        let _ = writeln!(t, "        IN {post})");
    }
    let _ = writeln!(t, "\n\\* anti-vacuity: every `ret` is reachable (checked as a violated invariant)");
    let ret_instrs: std::collections::BTreeSet<usize> = rets.iter().map(|x| x.0).collect();
    for &r in &ret_instrs {
        let _ = writeln!(t, "NotAt{r} == pc # {r}");
    }
    let _ = writeln!(t, "====");

    let casm: Vec<String> = instrs.iter().map(|n| format!("{n}: {}", ins[*n]).replace('\n', " ")).collect();
    let info = json!({
        "name": name, "module": module, "length": length, "n_instr": instrs.len(), "n_nodes": reach.len(), "n_actions": leaders.len(), "rets": ret_instrs.iter().collect::<Vec<_>>(),
        "nonlinear": nonlinear, "arg_cells": lay.arg_cells, "fp": FP, "casm": casm,
        "entry_syms": lay.entry_syms.iter().map(|(s, a)| json!([s, a])).collect::<Vec<_>>(),
        "gas_consts": gas_consts.iter().map(|(s, a)| json!([s, a])).collect::<Vec<_>>(),
        "hinted": instrs.iter().filter(|n| !ins[**n].hints.is_empty()).count(),
    });
    Ok((t, info))
}

fn length_unused(_: usize) {}

fn cmd_gen(jobs_path: &str, outdir: &str, result_path: &str) {
    let jobs = read_ndjson(jobs_path);
    let threads = rayon::current_num_threads().max(1);
    let per = jobs.len().div_ceil(threads).max(1);
    let chunks: Vec<(usize, &[Value])> = jobs.chunks(per).enumerate().collect();
    let results: Vec<Value> = chunks
        .par_iter()
        .map(|(ci, chunk)| {
            let mut db = build_db(true);
            let mut out = vec![];
            for job in chunk.iter() {
                let name = job["name"].as_str().unwrap().to_string();
                let dir = format!("{outdir}/{name}");
                let src_dir = format!("{outdir}/_src{ci}");
                let r = std::panic::catch_unwind(std::panic::AssertUnwindSafe(|| {
                    let program = compile_source(&mut db, Path::new(&src_dir), &name, job["cairo"].as_str().unwrap())
                        .map_err(|e| format!("compile: {e}"))?;
                    let c = build_runner(&program)?;
                    generate(&name, job, &c).map_err(|u| format!("unsupported: {}", u.0))
                }));
                let r = match r {
                    Ok(x) => x,
                    Err(p) => {
                        // the database may be poisoned after a panic
                        db = build_db(true);
                        Err(format!("panic: {}", panic_text(&p)))
                    }
                };
                match r {
                    Ok((text, info)) => {
                        std::fs::create_dir_all(&dir).unwrap();
                        std::fs::write(format!("{dir}/LS_{name}.tla"), text).unwrap();
                        let mut v = info;
                        v["ok"] = json!(true);
                        v["dir"] = json!(dir);
                        out.push(v);
                    }
                    Err(e) => out.push(json!({"name": name, "ok": false, "why": e})),
                }
            }
            out
        })
        .collect::<Vec<_>>()
        .into_iter()
        .flatten()
        .collect();
    let mut w = NdjsonWriter::create(result_path);
    for r in &results {
        w.write(r);
    }
    w.finish();
}

fn cmd_replay(cex_path: &str, out_path: &str) {
    let cex: Value = serde_json::from_str(&std::fs::read_to_string(cex_path).unwrap()).unwrap();
    let name = cex["name"].as_str().unwrap();
    let scratch = cex["scratch"].as_str().unwrap_or("/verif/work/c03/replay_src").to_string();
    let mut db = build_db(true);
    let out = (|| -> Result<Value, String> {
        let program = compile_source(&mut db, Path::new(&scratch), name, cex["cairo"].as_str().unwrap())?;
        let c = build_runner(&program)?;
        let func = c.builder.find_function("::foo").map_err(|e| format!("{e}"))?.clone();
        let args: Vec<ArgV> = cex["args"].as_array().unwrap().iter().map(ArgV::from_json).collect();
        // the runner subtracts the function's own cost from the available gas: give it the model's counter
        let gas = cex.get("gas_cell").and_then(|g| g.as_str()).and_then(|g| g.parse::<BigInt>().ok()).map(|g| {
            let g = g.to_usize().unwrap_or(usize::MAX / 4).min(usize::MAX / 4);
            g + c.runner.initial_required_gas(&func).unwrap_or(0)
        });
        let (honest, _) = run_with(&c, &func, &args, gas.or(Some(10_000_000)), 1_000_000, Mode::Plain);
        // program code range inside the assembled bytecode
        let (assembled, _) = c
            .builder
            .assemble_function_program(&func, cairo_lang_runnable_utils::builder::EntryCodeConfig::testing())
            .map_err(|e| format!("{e}"))?;
        let prog_len = c.builder.casm_program().assemble().bytecode.len();
        let footer_len: usize =
            cairo_lang_runnable_utils::builder::create_code_footer().iter().map(|i| i.body.op_size()).sum();
        let hi = assembled.bytecode.len() - footer_len;
        let lo = hi - prog_len;
        let cells: BTreeMap<i64, BigInt> = cex["cells"]
            .as_object()
            .unwrap()
            .iter()
            .map(|(k, v)| (k.parse::<i64>().unwrap(), v.as_str().unwrap().parse::<BigInt>().unwrap()))
            .collect();
        let (scripted, adv) = run_with(
            &c,
            &func,
            &args,
            gas.or(Some(10_000_000)),
            1_000_000,
            Mode::Script { lo, hi, fp_base: None, cells },
        );
        let differs = (scripted.kind == "ok" || scripted.kind == "panic")
            && (honest.kind == "ok" || honest.kind == "panic")
            && scripted.digest() != honest.digest();
        Ok(json!({
            "name": name,
            "honest": {"kind": honest.kind, "content": honest.content, "gas": honest.gas, "err": honest.err},
            "scripted": {"kind": scripted.kind, "content": scripted.content, "gas": scripted.gas, "err": scripted.err,
                          "hints_scripted": adv.scripted},
            "differs": differs,
            "opaque": honest.opaque || scripted.opaque,
        }))
    })();
    let v = match out {
        Ok(v) => v,
        Err(e) => json!({"name": name, "error": e}),
    };
    std::fs::write(out_path, serde_json::to_string_pretty(&v).unwrap()).unwrap();
}

fn main() {
    let args: Vec<String> = std::env::args().collect();
    if std::env::var("CVH_LOUD").is_err() {
        quiet_panics();
    }
    match args.get(1).map(|s| s.as_str()) {
        Some("gen") if args.len() == 5 => cmd_gen(&args[2], &args[3], &args[4]),
        Some("replay") if args.len() == 4 => cmd_replay(&args[2], &args[3]),
        _ => {
            eprintln!("usage: libfunc_air gen <jobs.ndjson> <outdir> <result.ndjson> | replay <cex.json> <out.json>");
            std::process::exit(2);
        }
    }
    let _ = BigInt::zero();
}

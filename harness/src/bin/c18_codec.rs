//! C18 harness: executes the codec paths emitted by TLC from specs/SierraCodec/SierraCodec.tla on the
//! real crates (binding R) and records the decompressed felt streams of contract classes together with
//! an abstract view of the serialised program for the FeltStream acceptor (binding V).
//!
//! usage: c18_codec run <paths.ndjson> <results.ndjson> <streams.ndjson> <tier> [--only <id>] [--dump <dir>]
//!
//! results lines: {"item":id, "origin":.., "init":{..}, "paths":n, "steps":n, "casm":..}      (one per program)
//!                {"finding":kind, "item":id, "path":[..], "at":k, "detail":..}               (only on trouble)
//!                {"summary":{..}}
use std::collections::{BTreeMap, HashMap};
use std::path::{Path, PathBuf};
use std::sync::Mutex;

use cairo_lang_compiler::db::RootDatabase;
use cairo_lang_defs::db::DefsGroup;
use cairo_lang_defs::ids::ModuleId;
use cairo_lang_lowering::ids::ConcreteFunctionWithBodyId;
use cairo_lang_sierra::ProgramParser;
use cairo_lang_sierra::ids::{
    ConcreteLibfuncId, ConcreteTypeId, FunctionId, GenericLibfuncId, GenericTypeId, UserTypeId, VarId,
};
use cairo_lang_sierra::program::{
    BranchInfo, BranchTarget, ConcreteLibfuncLongId, ConcreteTypeLongId, DeclaredTypeInfo, Function,
    FunctionSignature, GenericArg, Invocation, LibfuncDeclaration, Param, Program, Statement, StatementIdx,
    TypeDeclaration, VersionedProgram,
};
use cairo_lang_sierra_generator::canonical_id_replacer::CanonicalReplacer;
use cairo_lang_sierra_generator::db::SierraGenGroup;
use cairo_lang_sierra_generator::replace_ids::{SierraIdReplacer, replace_sierra_ids_in_program};
use cairo_lang_sierra_to_casm::compiler::SierraToCasmConfig;
use cairo_lang_sierra_to_casm::metadata::calc_metadata;
use cairo_lang_sierra_type_size::ProgramRegistryInfo;
use cairo_lang_starknet_classes::contract_class::{ContractClass, ContractEntryPoints};
use cairo_lang_utils::bigint::BigUintAsHex;
use cvh::util::Rng;
use num_bigint::{BigInt, BigUint};
use num_traits::{Signed, ToPrimitive, Zero};
use rayon::prelude::*;
use serde_json::{Value, json};

#[path = "../codec_common.rs"]
mod codec_common;
use codec_common::*;

// ------------------------------------------------------------------------------------------------
// Paths (from TLC)

#[derive(Clone, Debug)]
struct Exp {
    rep: String,
    ids: String,
    core: String,
    ut: String,
    same: bool,
}

#[derive(Default)]
struct Trie {
    children: BTreeMap<String, Trie>,
    exp: Option<Exp>, // prediction of the spec for the state reached by this prefix
    is_path: bool,
}

impl Trie {
    fn insert(&mut self, steps: &[String], exps: &[Exp]) {
        let mut node = self;
        for (s, e) in steps.iter().zip(exps) {
            node = node.children.entry(s.clone()).or_default();
            match &node.exp {
                None => node.exp = Some(e.clone()),
                Some(prev) => assert!(
                    prev.rep == e.rep && prev.ids == e.ids && prev.core == e.core && prev.ut == e.ut && prev.same == e.same,
                    "the spec predicts two different states for one path prefix"
                ),
            }
        }
        node.is_path = true;
    }
    fn count(&self) -> (usize, usize) {
        let mut nodes = 0;
        let mut paths = 0;
        for c in self.children.values() {
            let (n, p) = c.count();
            nodes += n + 1;
            paths += p + c.is_path as usize;
        }
        (nodes, paths)
    }
}

fn init_key(ids: &str, core: &str, ut: &str, db: bool) -> String {
    format!("{ids}/{core}/{ut}/{db}")
}

fn load_paths(path: &str) -> HashMap<String, Trie> {
    let mut m: HashMap<String, Trie> = HashMap::new();
    for v in cvh::util::read_ndjson(path) {
        let init = &v["init"];
        let key = init_key(
            init["ids"].as_str().unwrap(),
            init["core"].as_str().unwrap(),
            init["ut"].as_str().unwrap(),
            init["db"].as_bool().unwrap(),
        );
        let steps: Vec<String> = v["steps"].as_array().unwrap().iter().map(|s| s.as_str().unwrap().to_string()).collect();
        let exps: Vec<Exp> = v["exp"]
            .as_array()
            .unwrap()
            .iter()
            .map(|e| Exp {
                rep: e["rep"].as_str().unwrap().into(),
                ids: e["ids"].as_str().unwrap().into(),
                core: e["core"].as_str().unwrap().into(),
                ut: e["ut"].as_str().unwrap().into(),
                same: e["same"].as_bool().unwrap(),
            })
            .collect();
        m.entry(key).or_default().insert(&steps, &exps);
    }
    m
}

// ------------------------------------------------------------------------------------------------
// Representations and codec steps (the real crates)

#[derive(Clone)]
enum Rep {
    Mem(Program),
    Text(String),
    Felts(ContractClass),
    Json(String),
    ClassJson(String),
}

impl Rep {
    fn kind(&self) -> &'static str {
        match self {
            Rep::Mem(_) => "mem",
            Rep::Text(_) => "text",
            Rep::Felts(_) => "felts",
            Rep::Json(_) => "json",
            Rep::ClassJson(_) => "classJson",
        }
    }
}

fn apply_step(step: &str, cur: &Rep, db: Option<&RootDatabase>) -> Result<Rep, String> {
    let r = catch(|| -> Result<Rep, String> {
        Ok(match (step, cur) {
            ("Display", Rep::Mem(p)) => Rep::Text(p.to_string()),
            ("Parse", Rep::Text(t)) => Rep::Mem(ProgramParser::new().parse(t).map_err(|e| parse_err(t, &format!("{e:?}")))?),
            ("Canonicalise", Rep::Mem(p)) => Rep::Mem(CanonicalReplacer::from_program(p).apply(p)),
            ("ReplaceIds", Rep::Mem(p)) => Rep::Mem(replace_sierra_ids_in_program(db.ok_or("no database for ReplaceIds")?, p)),
            ("StripDebug", Rep::Mem(p)) => Rep::Mem(strip_names(p)),
            ("ToFelts", Rep::Mem(p)) => Rep::Felts(
                ContractClass::new(p, ContractEntryPoints::default(), None, Default::default())
                    .map_err(|e| format!("ContractClass::new: {e}"))?,
            ),
            ("FromFelts", Rep::Felts(c)) => Rep::Mem(c.extract_sierra_program(false).map_err(|e| format!("extract_sierra_program: {e}"))?.program),
            ("FromFeltsDbg", Rep::Felts(c)) => Rep::Mem(c.extract_sierra_program(true).map_err(|e| format!("extract_sierra_program: {e}"))?.program),
            ("ClassToJson", Rep::Felts(c)) => Rep::ClassJson(serde_json::to_string(c).map_err(|e| format!("class to json: {e}"))?),
            ("ClassFromJson", Rep::ClassJson(s)) => Rep::Felts(serde_json::from_str::<ContractClass>(s).map_err(|e| format!("class from json: {e}"))?),
            ("ToJson", Rep::Mem(p)) => Rep::Json(serde_json::to_string(&p.clone().into_artifact()).map_err(|e| format!("to json: {e}"))?),
            ("FromJson", Rep::Json(s)) => Rep::Mem(
                serde_json::from_str::<VersionedProgram>(s)
                    .map_err(|e| format!("from json: {e}"))?
                    .into_v1()
                    .map_err(|e| format!("into_v1: {e}"))?
                    .program,
            ),
            (s, r) => return Err(format!("harness: step {s} not applicable to representation {}", r.kind())),
        })
    });
    match r {
        Ok(x) => x,
        Err(p) => Err(p),
    }
}

/// gas = true: metadata and gas check as `sierra-compile` does; gas = false: ap-change metadata only (the
/// configuration used for the checked-in programs that were generated without gas accounting).
/// Renders a LALRPOP error with the offending character and its surroundings.
fn parse_err(text: &str, e: &str) -> String {
    let e: String = e.chars().take(200).collect();
    let loc = e.split("location: ").nth(1).or_else(|| e.split("token: (").nth(1)).and_then(|r| r.split(|c: char| !c.is_ascii_digit()).next()).and_then(|n| n.parse::<usize>().ok());
    match loc {
        Some(l) if l < text.len() && text.is_char_boundary(l) => {
            let ch = text[l..].chars().next().unwrap();
            let lo = (0..=l.saturating_sub(40)).rev().find(|i| text.is_char_boundary(*i)).unwrap_or(0);
            let hi = (l + 30).min(text.len());
            let hi = (hi..=text.len()).find(|i| text.is_char_boundary(*i)).unwrap_or(text.len());
            format!("parse error at char `{ch}`: {e} in `{}`", &text[lo..hi].replace('\n', " "))
        }
        _ => format!("parse error: {e}"),
    }
}

fn compile_casm(p: &Program, gas: bool) -> Result<String, String> {
    match catch(|| -> Result<String, String> {
        let info = ProgramRegistryInfo::new(p).map_err(|e| format!("registry: {e}"))?;
        let md = if gas {
            calc_metadata(p, &info, Default::default()).map_err(|e| format!("metadata: {e}"))?
        } else {
            cairo_lang_sierra_to_casm::metadata::calc_metadata_ap_change_only(p, &info).map_err(|e| format!("metadata: {e}"))?
        };
        let c = cairo_lang_sierra_to_casm::compiler::compile(
            p,
            &info,
            &md,
            SierraToCasmConfig { gas_usage_check: gas, max_bytecode_size: usize::MAX },
        )
        .map_err(|e| format!("compile: {e}"))?;
        Ok(c.to_string())
    }) {
        Ok(r) => r,
        Err(p) => Err(p),
    }
}

// ------------------------------------------------------------------------------------------------
// Corpus

#[derive(Clone, Copy, PartialEq, Eq, Debug)]
enum Origin {
    Db,
    Text,
    Class,
    Synth,
}

struct Item {
    id: String,
    origin: Origin,
    p0: Program,
    /// the published class (class-origin items): its felt stream is validated against the grammar too
    class: Option<ContractClass>,
    /// self-contained source for replays (text / json) or a path into the repository
    src: Value,
}

fn cov(named: usize, total: usize) -> &'static str {
    if named == 0 {
        "none"
    } else if named == total {
        "all"
    } else {
        "some"
    }
}

fn observed_attrs(p: &Program) -> (&'static str, &'static str) {
    let s = name_stats(p);
    (cov(s.named[..3].iter().sum(), s.total[..3].iter().sum()), cov(s.named[3], s.total[3]))
}

/// `//! > name` sections of a cairo test-data file; returns (test title, section name -> content) per test.
fn parse_test_file(text: &str) -> Vec<(String, BTreeMap<String, String>)> {
    let mut tests = vec![];
    let mut cur: BTreeMap<String, String> = BTreeMap::new();
    let mut title = String::new();
    let mut sec: Option<String> = None;
    let mut first = true;
    for line in text.lines() {
        if let Some(h) = line.strip_prefix("//! > ") {
            let h = h.trim();
            if h.starts_with("=====") {
                if !cur.is_empty() {
                    tests.push((std::mem::take(&mut title), std::mem::take(&mut cur)));
                }
                sec = None;
                first = true;
                continue;
            }
            if first {
                title = h.to_string();
                first = false;
                sec = None;
            } else {
                sec = Some(h.to_string());
                cur.insert(h.to_string(), String::new());
            }
        } else if let Some(s) = &sec {
            let e = cur.get_mut(s).unwrap();
            e.push_str(line);
            e.push('\n');
        }
    }
    if !cur.is_empty() {
        tests.push((title, cur));
    }
    tests
}

fn walk(dir: &Path, out: &mut Vec<PathBuf>, pred: &dyn Fn(&Path) -> bool) {
    let Ok(rd) = std::fs::read_dir(dir) else { return };
    let mut es: Vec<PathBuf> = rd.filter_map(|e| e.ok().map(|e| e.path())).collect();
    es.sort();
    for p in es {
        let name = p.file_name().unwrap().to_string_lossy().to_string();
        if p.is_dir() {
            if name == "target" || name == ".git" || name == "node_modules" {
                continue;
            }
            walk(&p, out, pred);
        } else if pred(&p) {
            out.push(p);
        }
    }
}

fn rel(p: &Path) -> String {
    p.strip_prefix(repo()).map(|x| x.to_string_lossy().to_string()).unwrap_or_else(|_| p.to_string_lossy().to_string())
}

struct TextSrc {
    id: String,
    text: String,
}

fn text_sources(tier: &str, rng: &mut Rng) -> Vec<TextSrc> {
    let mut v = vec![];
    let mut files = vec![];
    walk(&repo(), &mut files, &|p| p.extension().map(|e| e == "sierra").unwrap_or(false));
    for f in files {
        if let Ok(t) = std::fs::read_to_string(&f) {
            v.push(TextSrc { id: format!("sierra:{}", rel(&f)), text: t });
        }
    }
    // `sierra_code` sections of the e2e test data (one program per libfunc test)
    let mut e2e = vec![];
    walk(&repo().join("tests").join("e2e_test_data"), &mut e2e, &|_| true);
    walk(&repo().join("crates").join("cairo-lang-sierra-to-casm").join("src").join("test_data"), &mut e2e, &|_| true);
    let mut secs = vec![];
    for f in e2e {
        let Ok(t) = std::fs::read_to_string(&f) else { continue };
        if !t.contains("//! > sierra_code") {
            continue;
        }
        for (k, (title, m)) in parse_test_file(&t).into_iter().enumerate() {
            if let Some(s) = m.get("sierra_code") {
                secs.push(TextSrc { id: format!("e2e:{}#{}:{}", rel(&f), k, title), text: s.clone() });
            }
        }
    }
    if tier == "quick" {
        // a seeded sample, but at least one program per test file
        let mut by_file: BTreeMap<String, Vec<TextSrc>> = BTreeMap::new();
        for s in secs {
            by_file.entry(s.id.split('#').next().unwrap().to_string()).or_default().push(s);
        }
        for (_, mut l) in by_file {
            let n = l.len();
            let keep = 2.min(n);
            for _ in 0..keep {
                let i = rng.below(l.len() as u64) as usize;
                v.push(l.swap_remove(i));
            }
        }
    } else {
        v.extend(secs);
    }
    v
}

fn class_files() -> Vec<PathBuf> {
    let mut files = vec![];
    walk(&repo().join("crates"), &mut files, &|p| {
        let n = p.file_name().unwrap().to_string_lossy().to_string();
        n.ends_with(".contract_class.json") && !n.ends_with(".compiled_contract_class.json")
    });
    files
}

// ---- synthetic programs (codec-level only; they are not meant to compile to CASM)

const LONG_IDS: [&str; 9] = [
    "storage_address_from_base_and_offset",
    "contract_address_try_from_felt252",
    "storage_base_address_from_felt252",
    "storage_address_try_from_felt252",
    "secp256k1_get_point_from_x_syscall",
    "secp256r1_get_point_from_x_syscall",
    "circuit_failure_guarantee_verify",
    "u96_limbs_less_than_guarantee_verify",
    "u96_single_limb_less_than_guarantee_verify",
];
const TYPE_GENERICS: [&str; 12] =
    ["felt252", "u8", "Array", "Snapshot", "Struct", "Enum", "Box", "BoundedInt", "Const", "NonZero", "Uninitialized", "core::integer::u256"];
const LIBFUNC_GENERICS: [&str; 12] = [
    "store_temp",
    "felt252_const",
    "function_call",
    "drop",
    "dup",
    "const_as_immediate",
    "bounded_int_add",
    "struct_construct",
    "enum_match",
    "snapshot_take",
    "coupon_call",
    "a_generic_libfunc_id_of_31_char",
];

fn rand_value(rng: &mut Rng) -> BigInt {
    let mag = match rng.below(7) {
        0 => BigUint::zero(),
        1 => BigUint::from(rng.below(3) + 1),
        2 => BigUint::from(rng.below(1 << 31)),
        3 => BigUint::from(rng.next_u64()),
        4 => (BigUint::from(1u8) << 128u32) - BigUint::from(rng.below(3)),
        5 => (BigUint::from(1u8) << 128u32) + BigUint::from(rng.next_u64()),
        _ => (BigUint::from(1u8) << 251u32) - BigUint::from(rng.next_u64()),
    };
    let v = BigInt::from(mag);
    if rng.chance(1, 2) { -v } else { v }
}

fn rand_name(rng: &mut Rng, kind: usize, i: usize) -> String {
    // names the text grammar can read back (ConcreteLabel / function ids with bracket and brace trees)
    match (kind, rng.below(6)) {
        (0, 0) => format!("T{i}"),
        (0, 1) => format!("core::box::Box::<T{i}>"),
        (0, 2) => format!("Tuple<T{i}, u8>"),
        (0, 3) => format!("@T{i}"),
        (0, 4) => format!("[T{i}; 3]"),
        (0, _) => format!("m{i}::S::<core::integer::u8, -5>"),
        (1, 0) => format!("lf{i}"),
        (1, 1) => format!("store_temp<T{i}>"),
        (1, 2) => format!("const_as_immediate<Const<i8, -{}>>", i + 1),
        (1, 3) => format!("function_call<user@f{i}>"),
        (1, 4) => format!("enum_init<m::E::<u8>, {i}>"),
        (1, _) => format!("struct_deconstruct<Tuple<T{i}, (u8, u16)>>"),
        (2, 0) => format!("f{i}"),
        (2, 1) => format!("m{i}::foo::<core::integer::u8>"),
        (2, 2) => format!("m::bar[expr{i}]"),
        (2, 3) => format!("m::baz[{i}-{}]{{v0: T{i}, }}", i + 7),
        (2, 4) => format!("m::Impl::<core::felt252>::call{{{i}}}"),
        (2, _) => format!("m::q[loop:{i}]"),
        (_, 0) => format!("U{i}"),
        (_, 1) => format!("core::option::Option::<core::integer::u{}>", 8 << (i % 4)),
        (_, 2) => format!("Tuple{i}"),
        (_, _) => format!("m{i}::MyStruct::<core::felt252, core::array::Array::<u8>>"),
    }
}

fn synth_program(rng: &mut Rng, named: bool) -> Program {
    let nt = 3 + rng.below(10) as usize;
    let nl = 2 + rng.below(10) as usize;
    let nf = 1 + rng.below(4) as usize;
    let name = |rng: &mut Rng, k: usize, i: usize| if named { Some(rand_name(rng, k, i).into()) } else { None };
    let tys: Vec<ConcreteTypeId> = (0..nt).map(|i| ConcreteTypeId { id: i as u64, debug_name: name(rng, 0, i) }).collect();
    let lfs: Vec<ConcreteLibfuncId> = (0..nl).map(|i| ConcreteLibfuncId { id: i as u64, debug_name: name(rng, 1, i) }).collect();
    let fns: Vec<FunctionId> = (0..nf).map(|i| FunctionId { id: i as u64, debug_name: name(rng, 2, i) }).collect();
    let uts: Vec<UserTypeId> = (0..4)
        .map(|i| {
            if named {
                UserTypeId::from_string(rand_name(rng, 3, i))
            } else {
                UserTypeId { id: (BigUint::from(rng.next_u64()) << 180u32) + BigUint::from(rng.next_u64()), debug_name: None }
            }
        })
        .collect();
    let gen_args = |rng: &mut Rng, upto_ty: usize| -> Vec<GenericArg> {
        let n = rng.below(5) as usize;
        (0..n)
            .map(|_| match rng.below(6) {
                0 => GenericArg::UserType(rng.pick(&uts).clone()),
                1 if upto_ty > 0 => GenericArg::Type(tys[rng.below(upto_ty as u64) as usize].clone()),
                1 | 2 => GenericArg::Value(rand_value(rng)),
                3 => GenericArg::UserFunc(rng.pick(&fns).clone()),
                4 => GenericArg::Libfunc(rng.pick(&lfs).clone()),
                _ => GenericArg::Value(-BigInt::from(rng.below(200) + 1)),
            })
            .collect()
    };
    let type_declarations = (0..nt)
        .map(|i| TypeDeclaration {
            id: tys[i].clone(),
            long_id: ConcreteTypeLongId { generic_id: GenericTypeId::from_string(*rng.pick(&TYPE_GENERICS)), generic_args: gen_args(rng, i) },
            declared_type_info: if rng.chance(1, 2) {
                Some(DeclaredTypeInfo { storable: rng.chance(1, 2), droppable: rng.chance(1, 2), duplicatable: rng.chance(1, 2), zero_sized: rng.chance(1, 2) })
            } else {
                None
            },
        })
        .collect();
    let libfunc_declarations = (0..nl)
        .map(|i| LibfuncDeclaration {
            id: lfs[i].clone(),
            long_id: ConcreteLibfuncLongId {
                generic_id: GenericLibfuncId::from_string(if rng.chance(1, 3) { *rng.pick(&LONG_IDS) } else { *rng.pick(&LIBFUNC_GENERICS) }),
                generic_args: gen_args(rng, nt),
            },
        })
        .collect();
    let ns = 4 + rng.below(30) as usize;
    let var = |rng: &mut Rng| VarId::new(rng.below(12));
    let mut statements = vec![];
    for i in 0..ns {
        if i == ns - 1 || rng.chance(1, 6) {
            statements.push(Statement::Return((0..rng.below(3)).map(|_| var(rng)).collect()));
        } else {
            let nb = match rng.below(5) {
                0 => 0,
                1 | 2 => 1,
                3 => 2,
                _ => 3,
            };
            let branches = (0..nb)
                .map(|_| BranchInfo {
                    target: if rng.chance(1, 2) { BranchTarget::Fallthrough } else { BranchTarget::Statement(StatementIdx(rng.below(ns as u64) as usize)) },
                    results: (0..rng.below(3)).map(|_| var(rng)).collect(),
                })
                .collect();
            statements.push(Statement::Invocation(Invocation {
                libfunc_id: rng.pick(&lfs).clone(),
                args: (0..rng.below(4)).map(|_| var(rng)).collect(),
                branches,
            }));
        }
    }
    // distinct entry points so that the text labels are unambiguous
    let mut entries: Vec<usize> = (0..ns).collect();
    let funcs = (0..nf)
        .map(|i| {
            let e = entries.swap_remove(rng.below(entries.len() as u64) as usize);
            let params: Vec<Param> = (0..rng.below(4)).map(|k| Param { id: VarId::new(k), ty: rng.pick(&tys).clone() }).collect();
            Function {
                id: fns[i].clone(),
                signature: FunctionSignature {
                    param_types: params.iter().map(|p| p.ty.clone()).collect(),
                    ret_types: (0..rng.below(3)).map(|_| rng.pick(&tys).clone()).collect(),
                },
                params,
                entry_point: StatementIdx(e),
            }
        })
        .collect();
    Program { type_declarations, libfunc_declarations, statements, funcs }
}

// ---- generated Cairo sources compiled with the real compiler (db-origin items)

fn generated_sources(seed: u64) -> Vec<(String, String)> {
    let mut rng = Rng::new(seed ^ 0xC18);
    let a = rng.range(-120, -2);
    let b = rng.range(1, 120);
    let c = rng.range(-30000, -200);
    let k = rng.range(2, 9);
    vec![
        (
            "bounded".into(),
            format!(
                "use core::internal::bounded_int::{{self, BoundedInt, AddHelper, SubHelper, MulHelper}};
impl AH of AddHelper<BoundedInt<{a}, {b}>, BoundedInt<{c}, -1>> {{
    type Result = BoundedInt<{s0}, {s1}>;
}}
impl SH of SubHelper<BoundedInt<{a}, {b}>, BoundedInt<{c}, -1>> {{
    type Result = BoundedInt<{d0}, {d1}>;
}}
fn add(x: BoundedInt<{a}, {b}>, y: BoundedInt<{c}, -1>) -> BoundedInt<{s0}, {s1}> {{
    bounded_int::add(x, y)
}}
fn sub(x: BoundedInt<{a}, {b}>, y: BoundedInt<{c}, -1>) -> BoundedInt<{d0}, {d1}> {{
    bounded_int::sub(x, y)
}}
fn conv(x: i8) -> felt252 {{
    let y: i16 = x.into();
    (y + {c}).into()
}}
",
                s0 = a + c,
                s1 = b - 1,
                d0 = a + 1,
                d1 = b - c
            ),
        ),
        (
            "consts".into(),
            format!(
                "#[derive(Copy, Drop)]
struct P {{ x: i8, y: (i16, u256), z: felt252 }}
const NEG: i8 = {a};
const BIG: i128 = -170141183460469231731687303715884105728;
const PT: P = P {{ x: {a}, y: ({c}, 0x1_0000_0000_0000_0000_0000_0000_0000_0007), z: -1 }};
const ARR: [i32; 3] = [{c}, 0, {b}];
fn get_neg() -> i8 {{ NEG }}
fn get_big() -> i128 {{ BIG }}
fn get_pt() -> P {{ PT }}
fn get_box() -> Box<P> {{ BoxTrait::new(PT) }}
fn get_arr() -> Span<i32> {{ ARR.span() }}
fn neg_felt() -> felt252 {{ -{b} }}
fn shifts(x: i64) -> i64 {{ x * {a} + {c} }}
"
            ),
        ),
        (
            "usertypes".into(),
            format!(
                "#[derive(Drop, Clone)]
struct Inner<T> {{ a: T, b: Array<T> }}
#[derive(Drop)]
enum Choice<T> {{ A: Inner<T>, B: @Inner<T>, C: (u8, @Array<Inner<T>>), D }}
fn peek(s: @Inner<u{w}>) -> usize {{ s.b.len() }}
fn nested(c: @Choice<felt252>) -> felt252 {{
    match c {{
        Choice::A(i) => *i.a,
        Choice::B(i) => *(*i).a,
        Choice::C((_, arr)) => (*arr).len().into(),
        Choice::D => {k},
    }}
}}
fn snap_arr(a: @Array<Inner<u{w}>>) -> usize {{ a.len() }}
fn opt(o: @Option<Inner<i8>>) -> bool {{ o.is_some() }}
",
                w = 8 << (k % 4)
            ),
        ),
        (
            "fnnames".into(),
            format!(
                "trait Tr<T> {{ fn go(self: T, n: u32) -> u32; }}
impl TrU8 of Tr<u8> {{ fn go(self: u8, n: u32) -> u32 {{ n + self.into() }} }}
impl TrArr<T, +Drop<T>> of Tr<Array<T>> {{ fn go(self: Array<T>, n: u32) -> u32 {{ n + self.len() }} }}
#[inline(never)]
fn gen<T, +Tr<T>, +Drop<T>>(x: T, n: u32) -> u32 {{ x.go(n) }}
#[inline(never)]
fn twice<const N: i8>(x: i8) -> i8 {{ x + N }}
fn loops(mut n: u32) -> u32 {{
    let mut acc = 0_u32;
    while n != 0 {{
        let mut j = 0_u32;
        loop {{
            if j == {k} {{ break; }}
            acc += j;
            j += 1;
        }};
        n -= 1;
    }};
    for i in 0..{k}_u32 {{ acc += i; }};
    acc
}}
fn closures(x: u32) -> u32 {{
    let f = |y: u32| y + x;
    let g = |z: u32| -> u32 {{ z * {k} }};
    f(g(x))
}}
fn callers() -> u32 {{
    gen(3_u8, 1) + gen(array![1_u16, 2], 2) + gen(array![array![1_felt252]], 3) + loops(3) + closures(2)
}}
fn cgen() -> i8 {{ twice::<{a}>(1) + twice::<{b}>(2) }}
"
            ),
        ),
        (
            "special".into(),
            format!(
                "#[derive(Drop, Copy)]
struct S {{ a: i8, b: u256 }}
#[derive(Drop, Copy)]
enum E {{ X: i8, Y: S, Z }}
fn rec_int(x: i16, n: felt252) -> felt252 {{ if n == 0 {{ x.into() }} else {{ rec_int(x, n - 1) + 1 }} }}
fn rec_struct(s: S, n: felt252) -> felt252 {{ if n == 0 {{ s.a.into() }} else {{ rec_struct(s, n - 1) + 1 }} }}
fn rec_enum(e: E, n: felt252) -> felt252 {{ if n == 0 {{ match e {{ E::X(v) => v.into(), E::Y(s) => s.a.into(), E::Z => 0 }} }} else {{ rec_enum(e, n - 1) + 1 }} }}
fn rec_snap(s: @S, n: felt252) -> felt252 {{ if n == 0 {{ (*s.a).into() }} else {{ rec_snap(s, n - 1) + 1 }} }}
fn rec_arr(a: Array<i8>, n: felt252) -> felt252 {{ if n == 0 {{ a.len().into() }} else {{ rec_arr(a, n - 1) + 1 }} }}
fn rec_box(b: Box<S>, n: felt252) -> felt252 {{ if n == 0 {{ b.unbox().a.into() }} else {{ rec_box(b, n - 1) + 1 }} }}
fn rec_nz(d: NonZero<u8>, n: felt252) -> felt252 {{ if n == 0 {{ let x: u8 = d.into(); x.into() }} else {{ rec_nz(d, n - 1) + 1 }} }}
fn rec_opt(o: Option<(i8, u8)>, n: felt252) -> felt252 {{ if n == 0 {{ match o {{ Some((x, _)) => x.into(), None => 0 }} }} else {{ rec_opt(o, n - 1) + 1 }} }}
fn rec_tuple(t: (i8, [u8; 2], ByteArray), n: felt252) -> felt252 {{ if n == 0 {{ let (x, _, _) = t; x.into() }} else {{ rec_tuple(t, n - 1) + 1 }} }}
#[derive(Drop, Copy)]
enum E2 {{ A: (Option<u8>, [i8; 2]), B: S, C }}
fn rec_boxe(b: Box<E2>, n: felt252) -> felt252 {{ if n == 0 {{ match b.unbox() {{ E2::A((o, _)) => o.unwrap_or(0).into(), E2::B(s) => s.a.into(), E2::C => 0 }} }} else {{ rec_boxe(b, n - 1) + 1 }} }}
fn rec_snape(e: @E2, n: felt252) -> felt252 {{ if n == 0 {{ match e {{ E2::A((o, _)) => (*o).unwrap_or(0).into(), E2::B(s) => (*s.a).into(), E2::C => 0 }} }} else {{ rec_snape(e, n - 1) + 1 }} }}
fn rec_arre(a: Array<E>, n: felt252) -> felt252 {{ if n == 0 {{ a.len().into() }} else {{ rec_arre(a, n - 1) + 1 }} }}
fn callers2(n: felt252) -> felt252 {{
    rec_boxe(BoxTrait::new(E2::A((Some({k}), [{a}, 1]))), n) + rec_boxe(BoxTrait::new(E2::B(S {{ a: {a}, b: 7 }})), n)
        + rec_snape(@E2::A((None, [{a}, 2])), n) + rec_arre(array![E::X({a}), E::Z], n)
}}
fn callers(n: felt252) -> felt252 {{
    rec_int({a}, n) + rec_struct(S {{ a: {a}, b: {b} }}, n) + rec_enum(E::X({a}), n) + rec_enum(E::Y(S {{ a: 1, b: 2 }}), n)
        + rec_snap(@S {{ a: {a}, b: 0x1_0000_0000_0000_0000_0000_0000_0000_0000 }}, n) + rec_arr(array![{a}, {b}], n)
        + rec_box(BoxTrait::new(S {{ a: {a}, b: 1 }}), n) + rec_nz({k}, n) + rec_opt(Some(({a}, {k})), n)
        + rec_tuple(({a}, [1, {k}], \"x\"), n)
}}
"
            ),
        ),
        (
            "closures".into(),
            format!(
                "#[inline(never)]
fn apply<F, +Drop<F>, impl func: core::ops::Fn<F, (u32,)>[Output: u32], +Drop<func::Output>>(f: F, x: u32) -> u32 {{ f(x) }}
#[inline(never)]
fn apply_once<F, +Drop<F>, impl func: core::ops::FnOnce<F, (u32,)>[Output: u32]>(f: F, x: u32) -> u32 {{ f(x) }}
fn use_closures(a: u32, arr: Array<u32>) -> u32 {{
    let c = |y: u32| -> u32 {{ y + a * {k} }};
    let d = |y: u32| -> u32 {{ y + arr.len() }};
    apply(c, 1) + apply_once(d, 2)
}}
fn opt_map(o: Option<u32>, z: u32) -> Option<u32> {{ o.map(|v| v + z + {b}) }}
"
            ),
        ),
        (
            "builtins".into(),
            format!(
                "use core::dict::Felt252Dict;
use core::pedersen::pedersen;
use core::poseidon::poseidon_hash_span;
use core::ec::{{EcPointTrait, EcStateTrait}};
fn hashes(x: felt252) -> felt252 {{ pedersen(x, {b}) + poseidon_hash_span(array![x, {k}].span()) }}
fn bits(x: u128, y: u64) -> u128 {{ (x & 0xff00) | (x ^ y.into()) }}
fn dict(k: felt252) -> u8 {{
    let mut d: Felt252Dict<u8> = Default::default();
    d.insert(k, {k});
    d.get(k) + d.get({b})
}}
fn ec(x: felt252) -> bool {{
    match EcPointTrait::new_from_x(x) {{
        Some(p) => {{
            let mut s = EcStateTrait::init();
            s.add_mul({b}, p.try_into().unwrap());
            s.finalize_nz().is_some()
        }},
        None => false,
    }}
}}
fn wide(a: u256, b: u256) -> u256 {{ a * b / (b | 1) }}
fn nullable(x: Nullable<u64>) -> u64 {{ match core::nullable::match_nullable(x) {{
    core::nullable::FromNullableResult::Null => 0,
    core::nullable::FromNullableResult::NotNull(b) => b.unbox(),
}} }}
fn bytes(mut ba: ByteArray) -> usize {{ ba.append_word('abc', 3); ba.len() }}
"
            ),
        ),
    ]
}

// ------------------------------------------------------------------------------------------------
// Felt stream export (binding V)

const P_HEX: &str = "800000000000011000000000000000000000000000000000000000000000001";

fn words_per_felt(padded: usize) -> usize {
    let prime = BigUint::parse_bytes(P_HEX.as_bytes(), 16).unwrap();
    let mut count = 0;
    let mut m = BigUint::from(padded);
    while m < prime {
        m *= padded;
        count += 1;
    }
    count
}

/// Independent re-implementation of the decompression of `sierra_program` (after the 6 version words):
/// [code_len, padding, code words.., total_len, packed felts..]; every packed felt holds up to
/// `words_per_felt` code indices as base-`padded` digits, least significant first.
fn decompress(felts: &[BigUint]) -> Result<Vec<BigUint>, String> {
    let us = |i: usize| felts.get(i).and_then(|v| v.to_usize()).ok_or_else(|| format!("word {i} missing or not a usize"));
    let code_len = us(0)?;
    let padding = us(1)?;
    if felts.len() < 3 + code_len {
        return Err("code book longer than the stream".into());
    }
    let code = &felts[2..2 + code_len];
    let total = us(2 + code_len)?;
    let packed = &felts[3 + code_len..];
    let padded = code_len + padding;
    if padded < 256 || !padded.is_power_of_two() {
        return Err(format!("padded code size {padded} is not a power of two >= 256"));
    }
    let wpf = words_per_felt(padded);
    let mut out = Vec::with_capacity(total);
    let base = BigUint::from(padded);
    for f in packed {
        let mut v = f.clone();
        for _ in 0..wpf {
            if out.len() == total {
                break;
            }
            let d = (&v % &base).to_usize().unwrap();
            v /= &base;
            out.push(code.get(d).ok_or_else(|| format!("code index {d} outside the code book"))?.clone());
        }
        if !v.is_zero() && out.len() < total {
            return Err("packed felt has more digits than words_per_felt".into());
        }
    }
    if out.len() != total {
        return Err(format!("stream holds {} words, header says {total}", out.len()));
    }
    Ok(out)
}

fn limbs(v: &BigUint) -> Vec<u32> {
    let mut out = vec![];
    let mut x = v.clone();
    let m = BigUint::from(65536u32);
    while !x.is_zero() {
        out.push((&x % &m).to_u32().unwrap());
        x /= &m;
    }
    out
}

struct WordEnc {
    w: Vec<i64>,
    big: Vec<Vec<u32>>,
}

fn encode_words(words: &[BigUint]) -> WordEnc {
    let mut e = WordEnc { w: vec![], big: vec![] };
    let lim = BigUint::from(1u32 << 30);
    for x in words {
        if x < &lim {
            e.w.push(x.to_i64().unwrap());
        } else {
            e.big.push(limbs(x));
            e.w.push(-(e.big.len() as i64));
        }
    }
    e
}

/// The abstract view of an in-memory program, taken from the `Program` value only (no knowledge of the
/// felt encoding): names as bytes, ids as numbers, values as sign + base-2^16 limbs.
fn abstract_view(p: &Program) -> Result<Value, String> {
    let small = |x: u64| -> Result<u64, String> { if x < (1 << 30) { Ok(x) } else { Err(format!("id {x} outside the model (>= 2^30)")) } };
    let arg = |g: &GenericArg| -> Result<Value, String> {
        Ok(match g {
            GenericArg::UserType(u) => json!({"k":"ut","v":limbs(&u.id)}),
            GenericArg::Type(t) => json!({"k":"ty","v":small(t.id)?}),
            GenericArg::Value(v) => json!({"k":"val","neg":v.is_negative(),"v":limbs(v.magnitude())}),
            GenericArg::UserFunc(f) => json!({"k":"fn","v":small(f.id)?}),
            GenericArg::Libfunc(l) => json!({"k":"lf","v":small(l.id)?}),
        })
    };
    let args = |a: &[GenericArg]| -> Result<Vec<Value>, String> { a.iter().map(arg).collect() };
    let vars = |a: &[VarId]| -> Result<Vec<u64>, String> { a.iter().map(|v| small(v.id)).collect() };
    let mut types = vec![];
    for (i, d) in p.type_declarations.iter().enumerate() {
        if d.id.id != i as u64 {
            return Err("type declarations not canonical".into());
        }
        let info: Vec<bool> = match &d.declared_type_info {
            None => vec![],
            Some(t) => vec![t.storable, t.droppable, t.duplicatable, t.zero_sized],
        };
        types.push(json!({"g": d.long_id.generic_id.0.as_bytes(), "info": info, "args": args(&d.long_id.generic_args)?}));
    }
    let mut libfuncs = vec![];
    for (i, d) in p.libfunc_declarations.iter().enumerate() {
        if d.id.id != i as u64 {
            return Err("libfunc declarations not canonical".into());
        }
        libfuncs.push(json!({"g": d.long_id.generic_id.0.as_bytes(), "args": args(&d.long_id.generic_args)?}));
    }
    let mut stmts = vec![];
    for s in &p.statements {
        stmts.push(match s {
            Statement::Return(v) => json!({"k":"ret","args":vars(v)?}),
            Statement::Invocation(inv) => {
                let mut br = vec![];
                for b in &inv.branches {
                    let t: i64 = match b.target {
                        BranchTarget::Fallthrough => -1,
                        BranchTarget::Statement(s) => small(s.0 as u64)? as i64,
                    };
                    br.push(json!({"t": t, "res": vars(&b.results)?}));
                }
                json!({"k":"inv","lf":small(inv.libfunc_id.id)?,"args":vars(&inv.args)?,"br":br})
            }
        });
    }
    let mut funcs = vec![];
    for (i, f) in p.funcs.iter().enumerate() {
        if f.id.id != i as u64 {
            return Err("functions not canonical".into());
        }
        let mut params = vec![];
        for prm in &f.params {
            params.push(json!({"v": small(prm.id.id)?, "ty": small(prm.ty.id)?}));
        }
        let sig_p: Vec<u64> = f.signature.param_types.iter().map(|t| small(t.id)).collect::<Result<_, _>>()?;
        if sig_p != f.params.iter().map(|x| x.ty.id).collect::<Vec<_>>() {
            return Err("signature and params disagree".into());
        }
        let rets: Vec<u64> = f.signature.ret_types.iter().map(|t| small(t.id)).collect::<Result<_, _>>()?;
        funcs.push(json!({"params": params, "rets": rets, "entry": small(f.entry_point.0 as u64)?}));
    }
    Ok(json!({"types": types, "libfuncs": libfuncs, "stmts": stmts, "funcs": funcs}))
}

/// One NDJSON record of the FeltStream trace: the decompressed word stream of `felts` plus the abstract
/// view of the program the real deserialiser reads from it.
fn stream_record(id: &str, what: &str, felts: &[BigUintAsHex], program: &Program) -> Result<Value, String> {
    if felts.len() < 6 {
        return Err("stream shorter than the version header".into());
    }
    let raw: Vec<BigUint> = felts.iter().map(|f| f.value.clone()).collect();
    let words = decompress(&raw[6..])?;
    let enc = encode_words(&words);
    let view = abstract_view(program)?;
    let ver: Vec<u64> = raw[..6].iter().map(|v| v.to_u64().unwrap_or(u64::MAX)).collect();
    Ok(json!({"id": id, "what": what, "ver": ver, "n": words.len(), "w": enc.w, "big": enc.big, "exp": view}))
}

// ------------------------------------------------------------------------------------------------
// Path execution

struct Ctx<'a> {
    item: &'a Item,
    db: Option<&'a RootDatabase>,
    casm0: Result<String, String>,
    casm_cache: HashMap<u64, Result<u64, String>>,
    casm0_digest: u64,
    text_cache: HashMap<u64, Result<(), (String, String)>>,
    findings: Vec<Value>,
    steps: usize,
    paths: usize,
    casm_compiles: usize,
    drift: usize,
    init_ids: String,
    gas: bool,
    second_round: usize,
}

impl Ctx<'_> {
    fn finding(&mut self, kind: &str, path: &[String], detail: String) {
        if self.findings.len() < 20 {
            self.findings.push(json!({"finding": kind, "item": self.item.id, "origin": format!("{:?}", self.item.origin),
                "path": path, "detail": detail.chars().take(600).collect::<String>()}));
        }
    }

    fn check_mem(&mut self, p: &Program, exp: Option<&Exp>, path: &[String]) {
        // (1) the program proper: isomorphic to the original
        if let Err(e) = isomorphic(&self.item.p0, p) {
            self.finding("not_isomorphic", path, e);
            return;
        }
        // (2) prediction of the specification about ids / debug names
        if let Some(e) = exp {
            let (core, ut) = observed_attrs(p);
            let ids_ok = match e.ids.as_str() {
                "canon" => is_canonical(p),
                "hashed" => is_hashed(p),
                _ => true,
            };
            let core_ok = e.core == "any" || e.core == core;
            let ut_ok = e.ut == "any" || e.ut == ut;
            if !(ids_ok && core_ok && ut_ok) {
                self.drift += 1;
                self.finding(
                    "model_drift",
                    path,
                    format!("spec predicts ids={} core={} ut={}; observed canonical={} hashed={} same_as_init={} core={core} ut={ut}",
                        e.ids, e.core, e.ut, is_canonical(p), is_hashed(p), *p == self.item.p0),
                );
            }
            if e.same && *p != self.item.p0 {
                // ids must be untouched on this path: a stronger statement than isomorphism
                self.finding("ids_changed", path, "the specification says this path leaves every id unchanged".into());
            }
        }
        // (3) CASM
        if self.casm0.is_ok() {
            let d = exact_digest(p);
            let r = match self.casm_cache.get(&d) {
                Some(r) => r.clone(),
                None => {
                    self.casm_compiles += 1;
                    let r = compile_casm(p, self.gas).map(|s| fnv1a(&s));
                    self.casm_cache.insert(d, r.clone());
                    r
                }
            };
            match r {
                Ok(h) if h == self.casm0_digest => {}
                Ok(_) => self.finding("casm_differs", path, "CASM text differs from the CASM of the original program".into()),
                Err(e) => self.finding("casm_fails", path, format!("original compiles, this program does not: {e}")),
            }
        }
    }

    fn check_text(&mut self, t: &str, path: &[String]) {
        let d = fnv1a(t);
        let r = match self.text_cache.get(&d) {
            Some(r) => r.clone(),
            None => {
                let r = (|| -> Result<(), (String, String)> {
                    let reparse = |s: &str| -> Result<String, String> {
                        catch(|| ProgramParser::new().parse(s).map(|p| p.to_string()).map_err(|e| parse_err(s, &format!("{e:?}")))).and_then(|x| x)
                    };
                    let t2 = reparse(t).map_err(|e| ("parse_failed".to_string(), e))?;
                    if t2 != t {
                        // not yet a fix-point: the property allows one round
                        let t3 = reparse(&t2).map_err(|e| ("parse_failed".to_string(), e))?;
                        if t3 != t2 {
                            return Err(("display_not_fixpoint".into(), first_diff(&t2, &t3)));
                        }
                        return Err(("display_second_round".into(), first_diff(t, &t2)));
                    }
                    Ok(())
                })();
                self.text_cache.insert(d, r.clone());
                r
            }
        };
        match r {
            Ok(()) => {}
            // one normalising round is what the property allows ("a fix-point after one round")
            Err((k, _)) if k == "display_second_round" => self.second_round += 1,
            Err((k, e)) => self.finding(&k, path, e),
        }
    }

    fn dfs(&mut self, node: &Trie, cur: &Rep, path: &mut Vec<String>) {
        for (step, child) in &node.children {
            path.push(step.clone());
            self.steps += 1;
            if child.is_path {
                self.paths += 1;
            }
            match apply_step(step, cur, self.db) {
                Err(e) => self.finding("step_failed", path, e),
                Ok(next) => {
                    if let Some(e) = &child.exp {
                        if e.rep != next.kind() {
                            self.finding("model_drift", path, format!("spec predicts representation {}, harness produced {}", e.rep, next.kind()));
                        }
                    }
                    match &next {
                        Rep::Mem(p) => self.check_mem(p, child.exp.as_ref(), path),
                        Rep::Text(t) => self.check_text(t, path),
                        _ => {}
                    }
                    self.dfs(child, &next, path);
                }
            }
            path.pop();
        }
    }
}

fn first_diff(a: &str, b: &str) -> String {
    for (i, (x, y)) in a.lines().zip(b.lines()).enumerate() {
        if x != y {
            return format!("line {}: `{}` vs `{}`", i + 1, x, y);
        }
    }
    format!("line counts {} vs {}", a.lines().count(), b.lines().count())
}

struct ItemResult {
    lines: Vec<Value>,
    stream: Option<Value>,
}

fn run_item(item: &Item, db: Option<&RootDatabase>, tries: &HashMap<String, Trie>, dump: Option<&str>) -> ItemResult {
    let (core, ut) = observed_attrs(&item.p0);
    let ids = if db.is_some() {
        "orig"
    } else if is_canonical(&item.p0) {
        "canon"
    } else if is_hashed(&item.p0) {
        "hashed"
    } else {
        "other"
    };
    let key = init_key(ids, core, ut, db.is_some());
    let mut lines = vec![];
    let mut gas = true;
    let mut casm0 = compile_casm(&item.p0, true);
    if casm0.is_err() {
        if let Ok(c) = compile_casm(&item.p0, false) {
            gas = false;
            casm0 = Ok(c);
        }
    }
    let casm0_digest = casm0.as_ref().map(|s| fnv1a(s)).unwrap_or(0);
    let mut ctx = Ctx {
        item,
        db,
        casm_cache: HashMap::from([(exact_digest(&item.p0), casm0.as_ref().map(|s| fnv1a(s)).map_err(|e| e.clone()))]),
        casm0_digest,
        casm0,
        text_cache: HashMap::new(),
        findings: vec![],
        steps: 0,
        paths: 0,
        casm_compiles: 0,
        drift: 0,
        init_ids: ids.to_string(),
        gas,
        second_round: 0,
    };
    let empty = Trie::default();
    let trie = tries.get(&key).unwrap_or(&empty);
    let mut path = vec![];
    ctx.dfs(trie, &Rep::Mem(item.p0.clone()), &mut path);
    let _ = &ctx.init_ids;

    // the felt stream of this program (canonical form), or of the published class
    let mut stream = None;
    let mut stream_note = Value::Null;
    let rec = catch(|| -> Result<Value, String> {
        match &item.class {
            Some(c) => {
                let p = c.extract_sierra_program(false).map_err(|e| format!("extract: {e}"))?.program;
                stream_record(&item.id, "published", &c.sierra_program, &p)
            }
            None => {
                let canon = CanonicalReplacer::from_program(&item.p0).apply(&item.p0);
                let c = ContractClass::new(&canon, ContractEntryPoints::default(), None, Default::default()).map_err(|e| format!("serialise: {e}"))?;
                // the view is taken from the program that was serialised, not from a decoded one
                stream_record(&item.id, "serialised", &c.sierra_program, &canon)
            }
        }
    })
    .and_then(|x| x);
    match rec {
        Ok(v) => stream = Some(v),
        Err(e) => stream_note = json!(e),
    }
    if let Some(dir) = dump {
        let _ = std::fs::create_dir_all(dir);
        let name: String = item.id.chars().map(|c| if c.is_ascii_alphanumeric() { c } else { '_' }).collect();
        let _ = std::fs::write(format!("{dir}/{name}.sierra"), item.p0.to_string());
        if let Some(db) = db {
            let _ = std::fs::write(format!("{dir}/{name}.replaced.sierra"), replace_sierra_ids_in_program(db, &item.p0).to_string());
        }
    }
    lines.push(json!({"item": item.id, "origin": format!("{:?}", item.origin), "init": key, "known_init": tries.contains_key(&key),
        "paths": ctx.paths, "steps": ctx.steps, "casm_ok": ctx.casm0.is_ok(), "casm_compiles": ctx.casm_compiles,
        "casm_err": ctx.casm0.as_ref().err().map(|e| e.chars().take(120).collect::<String>()),
        "stmts": item.p0.statements.len(), "types": item.p0.type_declarations.len(), "libfuncs": item.p0.libfunc_declarations.len(),
        "stream_skipped": stream_note, "features": features(&item.p0), "gas": ctx.gas, "second_round": ctx.second_round,
        "model_drift": ctx.drift, "src": if ctx.findings.is_empty() { Value::Null } else { item.src.clone() }}));
    lines.extend(ctx.findings);
    ItemResult { lines, stream }
}

/// Which rare format cases a program exercises (for the coverage record).
fn features(p: &Program) -> Vec<&'static str> {
    let mut f = std::collections::BTreeSet::new();
    fn scan(f: &mut std::collections::BTreeSet<&'static str>, a: &[GenericArg]) {
        for g in a {
            match g {
                GenericArg::UserType(_) => f.insert("arg_usertype"),
                GenericArg::Type(_) => f.insert("arg_type"),
                GenericArg::Value(v) if v.is_negative() => f.insert("arg_negative_value"),
                GenericArg::Value(v) if v.bits() > 128 => f.insert("arg_value_over_128_bits"),
                GenericArg::Value(_) => f.insert("arg_value"),
                GenericArg::UserFunc(_) => f.insert("arg_userfunc"),
                GenericArg::Libfunc(_) => f.insert("arg_libfunc"),
            };
        }
    }
    for d in &p.type_declarations {
        scan(&mut f, &d.long_id.generic_args);
        if d.declared_type_info.is_some() {
            f.insert("declared_type_info");
        }
        if d.long_id.generic_id.0 == "Snapshot" {
            if let Some(GenericArg::Type(inner)) = d.long_id.generic_args.first() {
                if p.type_declarations.iter().any(|t| t.id == *inner && matches!(t.long_id.generic_id.0.as_str(), "Struct" | "Enum")) {
                    f.insert("usertype_in_snapshot");
                }
            }
        }
    }
    for d in &p.libfunc_declarations {
        scan(&mut f, &d.long_id.generic_args);
        if d.long_id.generic_id.0.len() > 31 {
            f.insert("long_generic_id");
        }
    }
    for s in &p.statements {
        if let Statement::Invocation(i) = s {
            if i.branches.len() > 1 {
                f.insert("multi_branch");
            }
            if i.branches.iter().any(|b| matches!(b.target, BranchTarget::Statement(_))) {
                f.insert("explicit_target");
            }
            if i.branches.is_empty() {
                f.insert("no_branch");
            }
        }
    }
    for func in &p.funcs {
        if let Some(n) = &func.id.debug_name {
            if n.contains('[') {
                f.insert("fn_name_brackets");
            }
            if n.contains('{') {
                f.insert("fn_name_braces");
            }
            if n.contains("::<") {
                f.insert("fn_name_specialised");
            }
        }
    }
    f.into_iter().collect()
}

// ---- db-backed jobs: every job owns a database; its modules are compiled and processed on one thread.

enum Job {
    /// modules of a project directory (examples, bug samples, generated sources)
    Crate { tag: String, dir: PathBuf, modules: Vec<String>, starknet: bool },
    /// single-file crates written to the scratch directory (e2e `cairo_code` sections)
    Files { tag: String, files: Vec<(String, PathBuf)> },
    /// programs that need no database
    Plain(Vec<Item>),
}

fn compile_module(db: &RootDatabase, crate_ids: &[cairo_lang_filesystem::ids::CrateId<'_>], full_path: Option<&str>) -> Result<Program, String> {
    let mut fns = vec![];
    for crate_id in crate_ids {
        for module_id in db.crate_modules(*crate_id).iter() {
            if let Some(fp) = full_path {
                if module_id.full_path(db) != fp {
                    continue;
                }
            }
            let Ok(data) = module_id.module_data(db) else { continue };
            for (free_func_id, _) in data.free_functions(db).iter() {
                if let Some(f) = ConcreteFunctionWithBodyId::from_no_generics_free(db, *free_func_id) {
                    fns.push(f);
                }
            }
        }
    }
    let _ = ModuleId::CrateRoot;
    if fns.is_empty() {
        return Err("no non-generic free functions".into());
    }
    catch(|| db.get_sierra_program_for_functions(fns).as_ref().map(|p| p.program.clone()).map_err(|_| "get_sierra_program_for_functions failed".to_string()))
        .and_then(|x| x)
}

fn run_job(job: Job, tries: &HashMap<String, Trie>, dump: Option<&str>) -> Vec<ItemResult> {
    let mut out = vec![];
    match job {
        Job::Plain(items) => {
            for it in &items {
                out.push(run_item(it, None, tries, dump));
            }
        }
        Job::Crate { tag, dir, modules, starknet } => {
            let mut db = new_db(starknet);
            let inputs = match setup_checked(&mut db, &dir) {
                Ok(i) => i,
                Err(e) => {
                    out.push(ItemResult { lines: vec![json!({"skipped": tag, "why": e})], stream: None });
                    return out;
                }
            };
            let crate_name = dir.file_name().unwrap().to_string_lossy().to_string();
            for m in modules {
                let ids = crate_ids(&db, &inputs);
                let cname = ids.first().map(|c| c.long(&db).name().to_string(&db)).unwrap_or(crate_name.clone());
                match compile_module(&db, &ids, Some(&format!("{cname}::{m}"))) {
                    Ok(p0) => {
                        let item = Item { id: format!("{tag}:{m}"), origin: Origin::Db, p0, class: None, src: json!({"crate": rel(&dir), "module": m}) };
                        out.push(run_item(&item, Some(&db), tries, dump));
                    }
                    Err(e) => out.push(ItemResult { lines: vec![json!({"skipped": format!("{tag}:{m}"), "why": e})], stream: None }),
                }
            }
        }
        Job::Files { tag, files } => {
            let mut db = new_db(false);
            for (name, f) in files {
                let inputs = match setup_checked(&mut db, &f) {
                    Ok(i) => i,
                    Err(e) => {
                        out.push(ItemResult { lines: vec![json!({"skipped": format!("{tag}:{name}"), "why": e})], stream: None });
                        continue;
                    }
                };
                let ids = crate_ids(&db, &inputs);
                match compile_module(&db, &ids, None) {
                    Ok(p0) => {
                        let item = Item { id: format!("{tag}:{name}"), origin: Origin::Db, p0, class: None, src: json!({"crate_dir": f.to_string_lossy(), "cairo": std::fs::read_to_string(f.join("lib.cairo")).unwrap_or_default()}) };
                        out.push(run_item(&item, Some(&db), tries, dump));
                    }
                    Err(e) => out.push(ItemResult { lines: vec![json!({"skipped": format!("{tag}:{name}"), "why": e})], stream: None }),
                }
            }
        }
    }
    out
}

fn modules_of(dir: &Path) -> Vec<String> {
    list_files(dir, ".cairo")
        .into_iter()
        .map(|p| p.file_stem().unwrap().to_string_lossy().to_string())
        .filter(|m| m != "lib")
        .collect()
}

fn main() {
    let args: Vec<String> = std::env::args().collect();
    if args.len() < 6 || args[1] != "run" {
        eprintln!("usage: c18_codec run <paths.ndjson> <results.ndjson> <streams.ndjson> <tier> [--only <id>] [--dump <dir>]");
        std::process::exit(2);
    }
    let tier = args[5].as_str();
    let mut only: Option<String> = None;
    let mut dump: Option<String> = None;
    let mut i = 6;
    while i < args.len() {
        match args[i].as_str() {
            "--only" => {
                only = Some(args[i + 1].clone());
                i += 2;
            }
            "--dump" => {
                dump = Some(args[i + 1].clone());
                i += 2;
            }
            _ => i += 1,
        }
    }
    // panics of the code under test are caught and reported as failed steps; keep stderr quiet
    std::panic::set_hook(Box::new(|_| {}));
    let seed = cvh::util::seed_from_env();
    let mut rng = Rng::new(seed);
    let tries = load_paths(&args[2]);
    let scratch = PathBuf::from(std::env::var("VERIF_SCRATCH").unwrap_or_else(|_| "/verif/work/c18".into()));
    std::fs::create_dir_all(&scratch).unwrap();

    let want = |id: &str| only.as_ref().map(|o| id == o || id.starts_with(o.as_str())).unwrap_or(true);
    let mut jobs: Vec<Job> = vec![];
    let mut skipped_parse = 0usize;
    let mut ill_formed = 0usize;
    let mut early_findings: Vec<Value> = vec![];

    // (A) text programs
    let mut plain: Vec<Item> = vec![];
    for t in text_sources(tier, &mut rng) {
        if !want(&t.id) {
            continue;
        }
        match catch(|| ProgramParser::new().parse(&t.text)) {
            Ok(Ok(p0)) => match well_formed(&p0) {
                Ok(()) => plain.push(Item { id: t.id, origin: Origin::Text, p0, class: None, src: json!({"text": t.text}) }),
                Err(_) => ill_formed += 1, // deliberately invalid test inputs
            },
            _ => skipped_parse += 1, // not the display of a complete program (fragments in test data)
        }
    }
    // (C) published contract classes
    for f in class_files() {
        let id = format!("class:{}", rel(&f));
        if !want(&id) {
            continue;
        }
        let Ok(s) = std::fs::read_to_string(&f) else { continue };
        let Ok(c) = serde_json::from_str::<ContractClass>(&s) else {
            skipped_parse += 1;
            continue;
        };
        match catch(|| c.extract_sierra_program(true)).map_err(|e| e.to_string()).and_then(|r| r.map_err(|e| e.to_string())) {
            Ok(e) => plain.push(Item { id, origin: Origin::Class, p0: e.program, class: Some(c), src: json!({"class_file": rel(&f)}) }),
            // a checked-in (already declared) class must stay decodable
            Err(e) => early_findings.push(json!({"finding": "published_class_undecodable", "item": id, "origin": "Class", "path": ["FromFelts"], "detail": e})),
        }
    }
    // (D) synthetic programs
    let n_synth = if tier == "quick" { 40 } else { 400 };
    for k in 0..n_synth {
        let id = format!("synth:{seed}:{k}");
        let mut srng = Rng::new(seed.wrapping_mul(1_000_003).wrapping_add(k as u64));
        let p0 = synth_program(&mut srng, k % 2 == 0);
        if want(&id) {
            let js = serde_json::to_value(p0.clone().into_artifact()).unwrap();
            plain.push(Item { id, origin: Origin::Synth, p0, class: None, src: json!({"program_json": js}) });
        }
    }
    // big programs first, then chunks of similar total size
    plain.sort_by_key(|i| std::cmp::Reverse(i.p0.statements.len()));
    let mut chunks: Vec<Vec<Item>> = (0..48).map(|_| vec![]).collect();
    for (k, it) in plain.into_iter().enumerate() {
        chunks[k % 48].push(it);
    }
    for c in chunks {
        if !c.is_empty() {
            jobs.push(Job::Plain(c));
        }
    }

    // (B) compiled programs
    let ex_dir = repo().join("examples");
    let mut ex_mods: Vec<String> = modules_of(&ex_dir).into_iter().filter(|m| want(&format!("examples:{m}"))).collect();
    // the bug samples are written as tests; without the test plugin the attributes are unknown, so the
    // corpus copy drops them (the functions stay ordinary free functions).  One crate per sample, so that a
    // sample needing the test plugin (assert_eq! ...) only excludes itself.
    let bug_src = repo().join("tests").join("bug_samples");
    let bug_dir = scratch.join("bug_samples");
    let _ = std::fs::remove_dir_all(&bug_dir);
    std::fs::create_dir_all(&bug_dir).unwrap();
    let mut bug_cases: Vec<(String, PathBuf)> = vec![];
    for p in list_files(&bug_src, ".cairo") {
        let name = p.file_stem().unwrap().to_string_lossy().to_string();
        if name == "lib" || !want(&format!("bug:{name}")) {
            continue;
        }
        let t = std::fs::read_to_string(&p).unwrap_or_default();
        let t: String = t
            .lines()
            .filter(|l| {
                let l = l.trim_start();
                !(l.starts_with("#[test]") || l.starts_with("#[should_panic") || l.starts_with("#[available_gas") || l.starts_with("#[ignore"))
            })
            .map(|l| format!("{l}\n"))
            .collect();
        let d = bug_dir.join(&name);
        std::fs::create_dir_all(&d).unwrap();
        std::fs::write(
            d.join("cairo_project.toml"),
            format!("[crate_roots]\nbs_{name} = \".\"\n\n[config.global]\nedition = \"2023_10\"\n\n[config.global.experimental_features]\nassociated_item_constraints = true\nnegative_impls = true\nuser_defined_inline_macros = true\n"),
        )
        .unwrap();
        std::fs::write(d.join("lib.cairo"), t).unwrap();
        bug_cases.push((name, d));
    }
    if tier == "quick" {
        while ex_mods.len() > 8 {
            ex_mods.swap_remove(rng.below(ex_mods.len() as u64) as usize);
        }
        while bug_cases.len() > 16 {
            bug_cases.swap_remove(rng.below(bug_cases.len() as u64) as usize);
        }
    }
    for ch in ex_mods.chunks(4) {
        jobs.push(Job::Crate { tag: "examples".into(), dir: ex_dir.clone(), modules: ch.to_vec(), starknet: false });
    }
    for ch in bug_cases.chunks(6) {
        jobs.push(Job::Files { tag: "bug".into(), files: ch.to_vec() });
    }
    // generated sources
    let gen_dir = scratch.join(format!("gen_{seed}"));
    let _ = std::fs::remove_dir_all(&gen_dir);
    std::fs::create_dir_all(&gen_dir).unwrap();
    let n_gen = if tier == "quick" { 1 } else { 6 };
    for g in 0..n_gen {
        let d = gen_dir.join(format!("g{g}"));
        std::fs::create_dir_all(&d).unwrap();
        let srcs = generated_sources(seed.wrapping_add(g * 7919));
        std::fs::write(d.join("cairo_project.toml"), format!("[crate_roots]\ng{g} = \".\"\n\n[config.global]\nedition = \"2024_07\"\n\n[config.global.experimental_features]\nassociated_item_constraints = true\nnegative_impls = true\n")).unwrap();
        std::fs::write(d.join("lib.cairo"), srcs.iter().map(|(m, _)| format!("mod {m};\n")).collect::<String>()).unwrap();
        let mut mods = vec![];
        for (m, s) in &srcs {
            std::fs::write(d.join(format!("{m}.cairo")), s).unwrap();
            if want(&format!("gen{g}:{m}")) {
                mods.push(m.clone());
            }
        }
        for m in mods {
            jobs.push(Job::Crate { tag: format!("gen{g}"), dir: d.clone(), modules: vec![m], starknet: false });
        }
    }
    // e2e cairo_code sections compiled by the real compiler
    let mut e2e_files = vec![];
    walk(&repo().join("tests").join("e2e_test_data").join("libfuncs"), &mut e2e_files, &|_| true);
    let e2e_dir = scratch.join("e2e_src");
    let _ = std::fs::remove_dir_all(&e2e_dir);
    std::fs::create_dir_all(&e2e_dir).unwrap();
    let mut cairo_cases: Vec<(String, PathBuf)> = vec![];
    for f in e2e_files {
        let Ok(t) = std::fs::read_to_string(&f) else { continue };
        let tests = parse_test_file(&t);
        let stem = f.file_name().unwrap().to_string_lossy().to_string();
        let mut picks: Vec<usize> = (0..tests.len()).filter(|k| tests[*k].1.contains_key("cairo_code")).collect();
        if tier == "quick" {
            while picks.len() > 1 {
                picks.swap_remove(rng.below(picks.len() as u64) as usize);
            }
        }
        for k in picks {
            let name = format!("{stem}_{k}");
            if !want(&format!("e2ec:{name}")) {
                continue;
            }
            // one crate per case, configured like the test crates of the repository's own e2e runner
            let cname: String = name.chars().map(|c| if c.is_ascii_alphanumeric() { c } else { '_' }).collect();
            let p = e2e_dir.join(&cname);
            std::fs::create_dir_all(&p).unwrap();
            std::fs::write(
                p.join("cairo_project.toml"),
                format!("[crate_roots]\ne2e_{cname} = \".\"\n\n[config.global]\nedition = \"2023_01\"\n\n[config.global.experimental_features]\nassociated_item_constraints = true\nnegative_impls = true\ncoupons = true\nuser_defined_inline_macros = true\nrepr_ptrs = true\n"),
            )
            .unwrap();
            std::fs::write(p.join("lib.cairo"), &tests[k].1["cairo_code"]).unwrap();
            cairo_cases.push((name, p));
        }
    }
    if tier == "quick" {
        while cairo_cases.len() > 24 {
            cairo_cases.swap_remove(rng.below(cairo_cases.len() as u64) as usize);
        }
    }
    for ch in cairo_cases.chunks(6) {
        jobs.push(Job::Files { tag: "e2ec".into(), files: ch.to_vec() });
    }

    let results: Mutex<Vec<ItemResult>> = Mutex::new(vec![]);
    let dump_ref = dump.as_deref();
    rayon::ThreadPoolBuilder::new().num_threads(14).stack_size(256 << 20).build().unwrap().install(|| {
        jobs.into_par_iter().for_each(|job| {
            let r = run_job(job, &tries, dump_ref);
            results.lock().unwrap().extend(r);
        });
    });

    let mut out = cvh::util::NdjsonWriter::create(&args[3]);
    let mut streams = cvh::util::NdjsonWriter::create(&args[4]);
    let mut summary: BTreeMap<&str, u64> = BTreeMap::new();
    let mut all = results.into_inner().unwrap();
    all.sort_by_key(|r| r.lines.first().and_then(|l| l.get("item").or(l.get("skipped")).and_then(|x| x.as_str().map(|s| s.to_string()))));
    for r in all {
        for l in &r.lines {
            if l.get("item").is_some() && l.get("finding").is_none() {
                *summary.entry("items").or_default() += 1;
                *summary.entry("paths").or_default() += l["paths"].as_u64().unwrap();
                *summary.entry("steps").or_default() += l["steps"].as_u64().unwrap();
                *summary.entry("casm_compiles").or_default() += l["casm_compiles"].as_u64().unwrap();
                if l["casm_ok"].as_bool().unwrap() {
                    *summary.entry("items_with_casm").or_default() += 1;
                }
                if !l["known_init"].as_bool().unwrap() {
                    *summary.entry("items_without_paths").or_default() += 1;
                }
            } else if l.get("finding").is_some() {
                *summary.entry("findings").or_default() += 1;
            } else if l.get("skipped").is_some() {
                *summary.entry("skipped_sources").or_default() += 1;
            }
            out.write(l);
        }
        if let Some(s) = r.stream {
            *summary.entry("streams").or_default() += 1;
            streams.write(&s);
        }
    }
    for l in &early_findings {
        *summary.entry("findings").or_default() += 1;
        out.write(l);
    }
    summary.insert("unparsable_corpus_texts", skipped_parse as u64);
    summary.insert("ill_formed_corpus_programs", ill_formed as u64);
    out.write(&json!({"summary": summary}));
    out.finish();
    streams.finish();
}

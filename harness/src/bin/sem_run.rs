//! sem_run — compile Cairo source files under a given optimisation/lowering configuration with the
//! real pipeline, record the stage outcomes (C08) and run named functions with given arguments (C01, C05).
//!
//! usage: sem_run <jobs.json> <out.ndjson>
//!   jobs.json: {"threads":n, "jobs":[{"id","path","cfg":{"opt":"default"|"disabled"|"avoid"|"small:N","skip_cf":bool,
//!               "match_thr":null|N,"solver":"linear"|"lp"}, "gas":n, "runs":[{"rid","fn":"name","args":["dec"...]}]}]}
//!   out: one line per job {"id","cfg","diag_errors":bool,"diag":"…","stages":{"sierra","registry","metadata","casm"},
//!                          "results":[{"rid","kind","value":[felts]}]}
#[path = "../sierra_common.rs"]
mod sierra_common;

use std::panic::{AssertUnwindSafe, catch_unwind};
use std::path::Path;
use std::sync::Mutex;

use cairo_lang_compiler::diagnostics::DiagnosticsReporter;
use cairo_lang_compiler::project::setup_project;
use cairo_lang_compiler::{CompilerConfig, compile_prepared_db_program};
use cairo_lang_filesystem::flag::{Flag, FlagsGroup};
use cairo_lang_filesystem::ids::{CrateInput, FlagLongId};
use cairo_lang_lowering::optimizations::config::{OptimizationConfig, Optimizations};
use cairo_lang_lowering::utils::InliningStrategy;
use cairo_lang_runnable_utils::builder::RunnableBuilder;
use cairo_lang_runner::SierraCasmRunner;
use cairo_lang_sierra::program::Program;
use cairo_lang_sierra::program_registry::ProgramRegistry;
use cairo_lang_sierra_to_casm::compiler::SierraToCasmConfig;
use cairo_lang_sierra_to_casm::metadata::calc_metadata;
use cairo_lang_sierra_type_size::ProgramRegistryInfo;
use cairo_vm::Felt252;
use cvh::util::NdjsonWriter;
use num_bigint::BigInt;
use rayon::prelude::*;
use serde_json::{Value, json};
use sierra_common::*;

fn optimizations(cfg: &Value) -> Optimizations {
    let opt = cfg.get("opt").and_then(|x| x.as_str()).unwrap_or("default");
    let skip_cf = cfg.get("skip_cf").and_then(|x| x.as_bool()).unwrap_or(false);
    let strat = |s: InliningStrategy| match Optimizations::enabled_with_default_movable_functions(s) {
        Optimizations::Enabled(c) => Optimizations::Enabled(c.with_skip_const_folding(skip_cf)),
        o => o,
    };
    let _ = OptimizationConfig::default();
    match opt {
        "disabled" => Optimizations::Disabled,
        "avoid" => strat(InliningStrategy::Avoid),
        "default" => strat(InliningStrategy::Default),
        s if s.starts_with("small:") => strat(InliningStrategy::InlineSmallFunctions(s[6..].parse().unwrap())),
        s => panic!("unknown opt {s}"),
    }
}

fn stage<T, E: std::fmt::Display>(f: impl FnOnce() -> Result<T, E>) -> (String, Option<T>) {
    match catch_unwind(AssertUnwindSafe(f)) {
        Ok(Ok(v)) => ("ok".into(), Some(v)),
        Ok(Err(e)) => {
            let mut s = format!("err: {e}");
            s.truncate(300);
            (s, None)
        }
        Err(p) => {
            let msg = p.downcast_ref::<String>().cloned().or_else(|| p.downcast_ref::<&str>().map(|s| s.to_string())).unwrap_or_default();
            let mut s = format!("panic: {msg}");
            s.truncate(300);
            (s, None)
        }
    }
}

fn process(job: &Value) -> Value {
    let id = job["id"].as_str().unwrap();
    let cfg = &job["cfg"];
    let path = job["path"].as_str().unwrap();
    let linear = cfg.get("solver").and_then(|s| s.as_str()).unwrap_or("linear") == "linear";
    let mut out = json!({"id": id, "cfg": cfg, "diag_errors": false, "diag": "", "stages": {}, "results": []});
    // front end + Sierra generation
    let built = catch_unwind(AssertUnwindSafe(|| {
        let mut db = build_db(true, Some(optimizations(cfg)));
        if let Some(n) = cfg.get("match_thr").and_then(|x| x.as_u64()) {
            db.set_flag(
                FlagLongId(Flag::NUMERIC_MATCH_OPTIMIZATION_MIN_ARMS_THRESHOLD.into()),
                Some(Flag::NumericMatchOptimizationMinArmsThreshold(n as usize)),
            );
        }
        let inputs = setup_project(&mut db, Path::new(path)).map_err(|e| format!("setup_project: {e}"))?;
        let mut diag = String::new();
        let has_errors =
            DiagnosticsReporter::write_to_string(&mut diag).with_crates(&inputs).allow_warnings().check(&db);
        let crate_ids = CrateInput::into_crate_ids(&db, inputs);
        let mut diag2 = String::new();
        let prog = compile_prepared_db_program(
            &db,
            crate_ids,
            CompilerConfig {
                diagnostics_reporter: DiagnosticsReporter::write_to_string(&mut diag2).allow_warnings(),
                replace_ids: true,
                ..CompilerConfig::default()
            },
        );
        Ok::<_, String>((has_errors, diag, prog.map_err(|e| format!("{e}"))))
    }));
    let program: Option<Program> = match built {
        Err(p) => {
            let msg = p.downcast_ref::<String>().cloned().or_else(|| p.downcast_ref::<&str>().map(|s| s.to_string())).unwrap_or_default();
            out["stages"]["sierra"] = json!(format!("panic: {}", msg.chars().take(300).collect::<String>()));
            None
        }
        Ok(Err(e)) => {
            out["stages"]["sierra"] = json!(format!("err: {e}"));
            None
        }
        Ok(Ok((has_errors, diag, prog))) => {
            out["diag_errors"] = json!(has_errors);
            let mut d = diag;
            let lim = job.get("diag_limit").and_then(|x| x.as_u64()).unwrap_or(1500) as usize;
            if d.len() > lim {
                let mut cut = lim;
                while !d.is_char_boundary(cut) {
                    cut -= 1;
                }
                d.truncate(cut);
            }
            out["diag"] = json!(d);
            match prog {
                Ok(p) => {
                    out["stages"]["sierra"] = json!("ok");
                    Some(p)
                }
                Err(e) => {
                    out["stages"]["sierra"] = json!(format!("err: {}", e.chars().take(300).collect::<String>()));
                    None
                }
            }
        }
    };
    let Some(program) = program else { return out };
    // Sierra validation, metadata, CASM
    let (s, _) = stage(|| ProgramRegistry::<cairo_lang_sierra::extensions::core::CoreType, cairo_lang_sierra::extensions::core::CoreLibfunc>::new(&program));
    out["stages"]["registry"] = json!(s);
    let (s, info) = stage(|| ProgramRegistryInfo::new(&program));
    if info.is_none() {
        out["stages"]["registry"] = json!(s);
        return out;
    }
    let info = info.unwrap();
    let (s, md) = stage(|| calc_metadata(&program, &info, metadata_config(linear)));
    out["stages"]["metadata"] = json!(s);
    let Some(md) = md else { return out };
    let (s, casm) = stage(|| {
        cairo_lang_sierra_to_casm::compiler::compile(&program, &info, &md, SierraToCasmConfig { gas_usage_check: true, max_bytecode_size: usize::MAX })
    });
    out["stages"]["casm"] = json!(s);
    if casm.is_none() {
        return out;
    }
    // runs
    let runs = job.get("runs").and_then(|r| r.as_array()).cloned().unwrap_or_default();
    if runs.is_empty() {
        return out;
    }
    let b = match catch_unwind(AssertUnwindSafe(|| RunnableBuilder::new(program.clone(), Some(metadata_config(linear))))) {
        Ok(Ok(b)) => b,
        _ => {
            out["stages"]["runner"] = json!("err");
            return out;
        }
    };
    let runner = match SierraCasmRunner::new(program.clone(), Some(metadata_config(linear)), Default::default(), None) {
        Ok(r) => r,
        Err(_) => {
            out["stages"]["runner"] = json!("err");
            return out;
        }
    };
    let gas = job.get("gas").and_then(|g| g.as_u64()).unwrap_or(100_000_000) as usize;
    let mut results = vec![];
    for r in &runs {
        let name = r["fn"].as_str().unwrap();
        let Ok(func) = b.find_function(&format!("::{name}")) else {
            results.push(json!({"rid": r["rid"], "kind": "nofunc", "value": []}));
            continue;
        };
        let args: Vec<Felt252> = r["args"]
            .as_array()
            .unwrap()
            .iter()
            .map(|a| Felt252::from(a.as_str().unwrap().parse::<BigInt>().unwrap()))
            .collect();
        let mut g = gas;
        let mut res = None;
        for _ in 0..2 {
            let t = catch_unwind(AssertUnwindSafe(|| run_with_trace(&runner, &b, func, &args, Some(g))));
            match t {
                Ok(t) => {
                    // 'Out of gas' is resource dependent: retry once with 100x gas
                    let oog = t.kind == "panic" && t.value == vec!["375233589013918064796019".to_string()];
                    let kind = t.kind.clone();
                    res = Some(json!({"rid": r["rid"], "kind": if oog { "out_of_gas".to_string() } else { kind }, "value": t.value, "steps": t.n_steps}));
                    if oog && g < gas * 100 {
                        g = gas * 100;
                        continue;
                    }
                }
                Err(_) => res = Some(json!({"rid": r["rid"], "kind": "harness_panic", "value": []})),
            }
            break;
        }
        results.push(res.unwrap());
    }
    out["results"] = json!(results);
    out
}

fn main() {
    let args: Vec<String> = std::env::args().collect();
    if std::env::var("CVH_LOUD").is_err() {
        quiet_panics();
    }
    let spec: Value = serde_json::from_str(&std::fs::read_to_string(&args[1]).unwrap()).unwrap();
    let threads = spec.get("threads").and_then(|x| x.as_u64()).unwrap_or(14) as usize;
    let jobs = spec["jobs"].as_array().unwrap().clone();
    let w = Mutex::new(NdjsonWriter::create(&args[2]));
    let pool = rayon::ThreadPoolBuilder::new().num_threads(threads).stack_size(128 << 20).build().unwrap();
    pool.install(|| {
        jobs.par_iter().for_each(|job| {
            let o = process(job);
            w.lock().unwrap().write(&o);
        })
    });
    w.into_inner().unwrap().finish();
    println!("sem_run: jobs={}", jobs.len());
}

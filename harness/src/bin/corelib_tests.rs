//! corelib_tests — run the core library's own Cairo test-suite under a given optimisation configuration
//! (C05: every corelib test has the same verdict under every configuration).
//! usage: corelib_tests <path to corelib dir> <opt> <skip_cf> <match_thr|none> [filter]
//! prints the test runner's own "test <name> ... ok|fail|ignored" lines.
use std::path::Path;

use cairo_lang_compiler::db::RootDatabase;
use cairo_lang_compiler::diagnostics::DiagnosticsReporter;
use cairo_lang_compiler::project::setup_project;
use cairo_lang_filesystem::cfg::{Cfg, CfgSet};
use cairo_lang_filesystem::db::init_dev_corelib;
use cairo_lang_filesystem::flag::{Flag, FlagsGroup};
use cairo_lang_filesystem::ids::FlagLongId;
use cairo_lang_lowering::optimizations::config::Optimizations;
use cairo_lang_lowering::utils::InliningStrategy;
use cairo_lang_test_plugin::{TestsCompilationConfig, compile_test_prepared_db, test_plugin_suite};
use cairo_lang_test_runner::{TestRunConfig, run_tests};

fn main() -> anyhow::Result<()> {
    let a: Vec<String> = std::env::args().collect();
    let path = Path::new(&a[1]);
    let opt = a[2].as_str();
    let skip_cf = a[3] == "true";
    let thr: Option<usize> = a[4].parse().ok();
    let filter = a.get(5).cloned().unwrap_or_default();
    let strat = |s: InliningStrategy| match Optimizations::enabled_with_default_movable_functions(s) {
        Optimizations::Enabled(c) => Optimizations::Enabled(c.with_skip_const_folding(skip_cf)),
        o => o,
    };
    let optimizations = match opt {
        "disabled" => Optimizations::Disabled,
        "avoid" => strat(InliningStrategy::Avoid),
        "default" => strat(InliningStrategy::Default),
        s if s.starts_with("small:") => strat(InliningStrategy::InlineSmallFunctions(s[6..].parse().unwrap())),
        s => panic!("unknown opt {s}"),
    };
    let mut b = RootDatabase::builder();
    b.with_cfg(CfgSet::from_iter([Cfg::name("test"), Cfg::kv("target", "test")]));
    b.with_default_plugin_suite(test_plugin_suite());
    b.with_optimizations(optimizations);
    let mut db = b.build()?;
    init_dev_corelib(&mut db, path.join("src"));
    if let Some(n) = thr {
        db.set_flag(
            FlagLongId(Flag::NUMERIC_MATCH_OPTIMIZATION_MIN_ARMS_THRESHOLD.into()),
            Some(Flag::NumericMatchOptimizationMinArmsThreshold(n)),
        );
    }
    let inputs = setup_project(&mut db, path)?;
    let reporter = DiagnosticsReporter::stderr().with_crates(&inputs).allow_warnings();
    let compiled = compile_test_prepared_db(
        &db,
        TestsCompilationConfig {
            starknet: false,
            add_statements_functions: false,
            add_statements_code_locations: false,
            contract_declarations: None,
            contract_crate_ids: None,
            executable_crate_ids: None,
            add_functions_debug_info: false,
            add_type_names: false,
            replace_ids: false,
        },
        inputs.clone(),
        reporter,
    )?;
    let (compiled, _) = cairo_lang_test_runner::filter_test_cases(compiled, false, false, &filter);
    let cfg = TestRunConfig {
        filter,
        include_ignored: false,
        ignored: false,
        profiler_config: None,
        gas_enabled: true,
        print_resource_usage: false,
    };
    let _ = run_tests(Some(&db), compiled, &cfg, None)?;
    Ok(())
}

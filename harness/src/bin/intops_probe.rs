//! Debugging aid: intops_probe <file.cairo> <fn> [int args...] - compiles a file with the real compiler
//! (corelib from the repository under test) and runs one function, printing the outcome.
#[path = "../intops_common.rs"]
mod intops_common;
use intops_common::*;

fn main() {
    let a: Vec<String> = std::env::args().collect();
    let src = std::fs::read_to_string(&a[1]).unwrap();
    let fold = if std::env::var("NOFOLD").is_ok() { Folding::Off } else { Folding::On };
    let dir = std::path::PathBuf::from(cvh_work()).join("probe");
    match compile_runner(&dir, "probe", &src, fold) {
        Err(e) => println!("COMPILE ERROR:\n{e}"),
        Ok(r) => {
            let args: Vec<_> = a[3..].iter().map(|s| parse_int(s)).collect();
            match run_fn(&r, &a[2], &args) {
                Outcome::Ok(v) => println!("ok {:?}", v.iter().map(|x| x.to_string()).collect::<Vec<_>>()),
                Outcome::Panic(d) => println!("panic {:?}", panic_class(&d)),
                o => println!("{o:?}"),
            }
        }
    }
}
fn cvh_work() -> String {
    std::env::var("VERIF_WORK").unwrap_or_else(|_| "/verif/work/intops".into())
}

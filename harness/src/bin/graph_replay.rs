//! graph_replay — replays the (graph, start) cases enumerated by TLC from specs/GraphAlgos into the
//! real call-graph algorithms of cairo-lang-utils (compute_scc, calc_feedback_set) and compares the
//! results with the specification's: the SCC as a set, the feedback set as the ordered set it is.
//!
//! usage: graph_replay <cases.ndjson> <out.ndjson>
//!   case: {"g":[[succ...]...], "s":start, "scc":[...], "fset":[...]}   (nodes are 1-based)
//!   out:  one line per mismatch {"case":..., "what":"scc"|"fset"|"panic", "real":...}; last line {"summary":{...}}
use std::panic::{AssertUnwindSafe, catch_unwind};
use std::rc::Rc;

use cairo_lang_utils::graph_algos::feedback_set::calc_feedback_set;
use cairo_lang_utils::graph_algos::graph_node::GraphNode;
use cairo_lang_utils::graph_algos::strongly_connected_components::{ComputeScc, compute_scc};
use cvh::util::{NdjsonWriter, read_ndjson};
use serde_json::{Value, json};

#[derive(Clone)]
struct Node {
    id: usize,
    graph: Rc<Vec<Vec<usize>>>,
}
impl GraphNode for Node {
    type NodeId = usize;
    fn get_neighbors(&self) -> Vec<Self> {
        self.graph[self.id].iter().map(|n| Node { id: *n, graph: self.graph.clone() }).collect()
    }
    fn get_id(&self) -> usize {
        self.id
    }
}
impl ComputeScc for Node {
    fn compute_scc(&self) -> Vec<usize> {
        compute_scc(self)
    }
}

fn main() {
    let args: Vec<String> = std::env::args().collect();
    std::panic::set_hook(Box::new(|_| {}));
    let cases = read_ndjson(&args[1]);
    let mut out = NdjsonWriter::create(&args[2]);
    let (mut n, mut bad, mut nontrivial) = (0u64, 0u64, 0u64);
    for c in &cases {
        n += 1;
        let g: Vec<Vec<usize>> = c["g"]
            .as_array()
            .unwrap()
            .iter()
            .map(|l| l.as_array().unwrap().iter().map(|x| x.as_u64().unwrap() as usize - 1).collect())
            .collect();
        let s = c["s"].as_u64().unwrap() as usize - 1;
        let mut want_scc: Vec<usize> = c["scc"].as_array().unwrap().iter().map(|x| x.as_u64().unwrap() as usize - 1).collect();
        want_scc.sort();
        let want_fset: Vec<usize> = c["fset"].as_array().unwrap().iter().map(|x| x.as_u64().unwrap() as usize - 1).collect();
        if !want_fset.is_empty() {
            nontrivial += 1;
        }
        let graph = Rc::new(g);
        let r = catch_unwind(AssertUnwindSafe(|| {
            let node = Node { id: s, graph: graph.clone() };
            let mut scc = compute_scc(&node);
            scc.sort();
            let fset: Vec<usize> = calc_feedback_set(node.into()).into_iter().collect();
            (scc, fset)
        }));
        match r {
            Err(_) => {
                bad += 1;
                out.write(&json!({"case": c, "what": "panic", "real": Value::Null}));
            }
            Ok((scc, fset)) => {
                if scc != want_scc {
                    bad += 1;
                    out.write(&json!({"case": c, "what": "scc", "real": scc.iter().map(|x| x + 1).collect::<Vec<_>>()}));
                } else if fset != want_fset {
                    bad += 1;
                    out.write(&json!({"case": c, "what": "fset", "real": fset.iter().map(|x| x + 1).collect::<Vec<_>>()}));
                }
            }
        }
    }
    out.write(&json!({"summary": {"cases": n, "mismatches": bad, "nonempty_fset": nontrivial}}));
    out.finish();
    println!("graph_replay: cases={n} mismatches={bad}");
}

//! C09 / C10 — front-end totality and syntax-tree losslessness.
//!
//! For every input text the harness
//!  (a) runs the public lexer (`cairo_lang_parser::lexer::Lexer`) and records the terminal sequence,
//!  (b) parses the text as a module file with the real parser (`file_syntax` of a `FileKind::Module`
//!      virtual file, i.e. `Parser::parse_file_green`) under `catch_unwind` on a bounded-stack thread,
//!  (c) walks the resulting `SyntaxNode` tree in pre-order, recording every leaf (token / trivium),
//!  (d) checks the tree-level laws of C10 directly on the real tree,
//!  (e) optionally formats the tree (`get_formatted_file`) and computes semantic + lowering
//!      diagnostics through a `RootDatabase` (C09),
//!  (f) writes the abstract (lex, leaf) trace for `ParserCursorTrace.tla` (deduplicated).
//!
//! usage:
//!   parse_trace run <inputs.ndjson> <outdir> [--mode parse|format|full] [--threads N] [--stack-mb M]
//!                   [--budget-ms T] [--trace-max-terms K] [--exclude id,id,...] [--corrupt K]
//!   parse_trace gen-mutants <out.ndjson> <n> [--cap 200] [--max-len 200000]
//!   parse_trace gen-corpus <out.ndjson>
//!   parse_trace gen-nesting <out.ndjson> [--cap 200]
use std::collections::HashMap;
use std::io::Write;
use std::panic::{AssertUnwindSafe, catch_unwind};
use std::sync::atomic::{AtomicBool, AtomicU64, AtomicUsize, Ordering};
use std::sync::{Arc, Mutex};
use std::time::{Duration, Instant};

use cairo_lang_compiler::db::RootDatabase;
use cairo_lang_defs::db::DefsGroup;
use cairo_lang_defs::ids::ModuleId;
use cairo_lang_diagnostics::DiagnosticEntry;
use cairo_lang_filesystem::db::{FilesGroup, init_dev_corelib};
use cairo_lang_filesystem::ids::{CrateLongId, FileId, FileKind, FileLongId, SmolStrId, SpanInFile, VirtualFile};
use cairo_lang_formatter::{FormatterConfig, get_formatted_file};
use cairo_lang_lowering::db::LoweringGroup;
use cairo_lang_parser::db::ParserGroup;
use cairo_lang_parser::lexer::Lexer;
use cairo_lang_parser::utils::SimpleParserDatabase;
use cairo_lang_semantic::db::SemanticGroup;
use cairo_lang_syntax::node::SyntaxNode;
use cairo_lang_syntax::node::green::GreenNodeDetails;
use cairo_lang_syntax::node::kind::SyntaxKind;
use cairo_lang_utils::Intern;
use cvh::util::{NdjsonWriter, read_ndjson, repo_root, seed_from_env};
use salsa::Database;
use serde_json::{Value, json};

#[path = "../parser_gen.rs"]
mod parser_gen;

// ------------------------------------------------------------------ data

#[derive(Clone, Debug, PartialEq)]
struct Triv {
    k: String,
    w: usize,
}
#[derive(Clone, Debug)]
struct LexTerm {
    kind: String,
    lead: Vec<Triv>,
    text: usize,
    trail: Vec<Triv>,
}
#[derive(Clone, Debug)]
struct Leaf {
    /// "tok" (token child of a terminal), "triv" (lexer trivium), "skip" (TokenSkipped), "miss" (TokenMissing)
    c: &'static str,
    k: String,
    w: usize,
    p: usize,
    /// number of enclosing TriviumSkippedNode
    d: usize,
    /// pre-order ordinals of the enclosing TriviumSkippedNodes, outermost first (len == d)
    gs: Vec<usize>,
}

#[derive(Default)]
struct Outcome {
    /// (kind, stage, detail)
    problems: Vec<(String, String, String)>,
    lex: Vec<LexTerm>,
    leaves: Vec<Leaf>,
    diags: Vec<(usize, usize)>,
    root_w: usize,
    n_nodes: usize,
    parsed: bool,
    formatted: bool,
    full: bool,
    n_sem_diags: usize,
    n_skipped_nodes: usize,
    signature: String,
}

fn vfile<'db>(db: &'db dyn Database, name: &str, text: &str) -> FileId<'db> {
    FileLongId::Virtual(VirtualFile {
        parent: None,
        name: SmolStrId::from(db, name),
        content: SmolStrId::from(db, text),
        code_mappings: [].into(),
        kind: FileKind::Module,
        original_item_removed: false,
    })
    .intern(db)
}

fn panic_msg(e: Box<dyn std::any::Any + Send>) -> String {
    let m = if let Some(s) = e.downcast_ref::<&str>() {
        s.to_string()
    } else if let Some(s) = e.downcast_ref::<String>() {
        s.clone()
    } else {
        "non-string panic payload".to_string()
    };
    let loc = LAST_PANIC_LOC.with(|l| l.borrow_mut().take()).unwrap_or_default();
    format!("{loc}: {m}")
}

thread_local! {
    static LAST_PANIC_LOC: std::cell::RefCell<Option<String>> = const { std::cell::RefCell::new(None) };
}

// ------------------------------------------------------------------ (a) lexer

fn run_lexer(db: &dyn Database, text: &str) -> Vec<LexTerm> {
    let mut lexer = Lexer::new(text);
    let mut out = vec![];
    let tv = |db: &dyn Database, t: &[cairo_lang_syntax::node::ast::TriviumGreen<'_>]| -> Vec<Triv> {
        t.iter()
            .map(|g| {
                let n = g.0.long(db);
                Triv { k: format!("{:?}", n.kind), w: n.width(db).as_u32() as usize }
            })
            .collect()
    };
    loop {
        let t = lexer.match_terminal(db);
        let eof = t.kind == SyntaxKind::TerminalEndOfFile;
        out.push(LexTerm {
            kind: format!("{:?}", t.kind),
            lead: tv(db, &t.leading_trivia),
            text: t.text.long(db).len(),
            trail: tv(db, &t.trailing_trivia),
        });
        if eof {
            break;
        }
        if out.len() > text.len() + 2 {
            // the lexer does not advance: report instead of looping forever
            panic!("lexer produced more terminals than bytes (no progress)");
        }
    }
    out
}

// ------------------------------------------------------------------ (c)+(d) tree walk and laws

/// Pre-order walk with an explicit stack (the walker itself must not overflow on deep trees).
fn walk_tree(db: &dyn Database, root: SyntaxNode<'_>, text: &str, o: &mut Outcome) {
    enum Ev<'a> {
        Enter(SyntaxNode<'a>, std::rc::Rc<Vec<usize>>, bool),
        Exit(SyntaxNode<'a>),
    }
    let mut concat = String::with_capacity(text.len());
    let mut stack = vec![Ev::Enter(root, std::rc::Rc::new(vec![]), false)];
    let mut law = |o: &mut Outcome, name: &str, detail: String| {
        if o.problems.iter().filter(|p| p.0 == "law").count() < 5 {
            o.problems.push(("law".into(), name.into(), detail));
        }
    };
    let rspan = root.span(db);
    if rspan.start.as_u32() != 0 || rspan.end.as_u32() as usize != text.len() {
        law(o, "root_span", format!("root span [{},{}) but file length {}", rspan.start.as_u32(), rspan.end.as_u32(), text.len()));
    }
    o.root_w = root.width(db).as_u32() as usize;
    while let Some(ev) = stack.pop() {
        match ev {
            Ev::Enter(node, path, in_trivia) => {
                let depth = path.len();
                o.n_nodes += 1;
                let span = node.span(db);
                let (s, e) = (span.start.as_u32() as usize, span.end.as_u32() as usize);
                let w = node.width(db).as_u32() as usize;
                let kind = node.kind(db);
                if e < s || e - s != w {
                    law(o, "span_width", format!("{kind:?}: span [{s},{e}) width {w}"));
                }
                if concat.len() != s {
                    law(o, "span_start", format!("{kind:?}: span starts at {s} but {} bytes of leaf text precede it", concat.len()));
                }
                // get_text(n) == t[span(n)]
                let slice = text.get(s..e);
                match slice {
                    None => law(o, "span_slice", format!("{kind:?}: span [{s},{e}) is not a valid slice of the input (len {})", text.len())),
                    Some(sl) => {
                        let gt = node.get_text(db);
                        if gt != sl {
                            law(o, "get_text", format!("{kind:?}: get_text differs from input[{s}..{e}]"));
                        }
                    }
                }
                let green = node.green_node(db);
                match &green.details {
                    GreenNodeDetails::Token(t) => {
                        let tt = t.long(db);
                        if tt.len() != w {
                            law(o, "token_width", format!("{kind:?}: token text len {} width {w}", tt.len()));
                        }
                        if slice.is_some_and(|sl| sl != tt.as_str()) {
                            law(o, "token_text", format!("{kind:?} at [{s},{e}): token text {:?} but input has {:?}", tt, slice.unwrap()));
                        }
                        concat.push_str(tt);
                        let c = match kind {
                            SyntaxKind::TokenSkipped => "skip",
                            SyntaxKind::TokenMissing => "miss",
                            _ if in_trivia => "triv",
                            _ => "tok",
                        };
                        o.leaves.push(Leaf { c, k: format!("{kind:?}"), w, p: s, d: depth, gs: path.to_vec() });
                    }
                    GreenNodeDetails::Node { .. } => {
                        let children = node.get_children(db);
                        if children.len() != green.children().len() {
                            law(o, "children_count", format!("{kind:?}: {} red children, {} green children", children.len(), green.children().len()));
                        }
                        let mut sum = 0usize;
                        let mut pos = s;
                        for ch in children {
                            let cs = ch.span(db);
                            let (a, b) = (cs.start.as_u32() as usize, cs.end.as_u32() as usize);
                            if a != pos {
                                law(o, "children_consecutive", format!("{kind:?} [{s},{e}): child {:?} starts at {a}, previous sibling ended at {pos}", ch.kind(db)));
                            }
                            pos = b;
                            sum += ch.width(db).as_u32() as usize;
                        }
                        if pos != e {
                            law(o, "children_cover", format!("{kind:?} [{s},{e}): children end at {pos}"));
                        }
                        if sum != w {
                            law(o, "width_sum", format!("{kind:?}: width {w} but children widths sum to {sum}"));
                        }
                        let (d2, tr2) = match kind {
                            SyntaxKind::TriviumSkippedNode => {
                                o.n_skipped_nodes += 1;
                                let mut p2 = path.to_vec();
                                p2.push(o.n_skipped_nodes);
                                (std::rc::Rc::new(p2), false)
                            }
                            SyntaxKind::Trivia => (path.clone(), true),
                            _ => (path.clone(), in_trivia),
                        };
                        stack.push(Ev::Exit(node));
                        for ch in children.iter().rev() {
                            stack.push(Ev::Enter(*ch, d2.clone(), tr2));
                        }
                    }
                }
            }
            Ev::Exit(node) => {
                let e = node.span(db).end.as_u32() as usize;
                if concat.len() != e {
                    law(o, "span_end", format!("{:?}: span ends at {e} but leaf text so far has {} bytes", node.kind(db), concat.len()));
                }
            }
        }
    }
    if concat != text {
        let at = concat.bytes().zip(text.bytes()).position(|(a, b)| a != b).unwrap_or(concat.len().min(text.len()));
        law(o, "concat", format!("concatenated leaf text ({} bytes) differs from input ({} bytes) at byte {at}", concat.len(), text.len()));
    }
}

/// Narrow classifier for one known defect class: inside one `Trivia` list a `TriviumSkippedNode` was
/// pushed behind skipped tokens that follow it in the source.  Rebuilds the leaf text with, in every
/// Trivia list, the skipped nodes moved in front of the other trivia that precede the last skipped node.
fn repaired_text(db: &dyn Database, root: SyntaxNode<'_>) -> String {
    let mut out = String::new();
    let mut stack = vec![root];
    while let Some(node) = stack.pop() {
        match &node.green_node(db).details {
            GreenNodeDetails::Token(t) => out.push_str(t.long(db)),
            GreenNodeDetails::Node { .. } => {
                let children = node.get_children(db);
                let mut order: Vec<SyntaxNode<'_>> = children.to_vec();
                if node.kind(db) == SyntaxKind::Trivia {
                    if let Some(j) = children.iter().rposition(|c| c.kind(db) == SyntaxKind::TriviumSkippedNode) {
                        let (head, tail) = children.split_at(j + 1);
                        order = head.iter().filter(|c| c.kind(db) == SyntaxKind::TriviumSkippedNode).copied().collect();
                        order.extend(head.iter().filter(|c| c.kind(db) != SyntaxKind::TriviumSkippedNode).copied());
                        order.extend(tail.iter().copied());
                    }
                }
                for ch in order.iter().rev() {
                    stack.push(*ch);
                }
            }
        }
    }
    out
}

fn check_span(o: &mut Outcome, stage: &str, s: usize, e: usize, len: usize, what: &str) {
    if !(s <= e && e <= len) {
        o.problems.push(("diag_span".into(), stage.into(), format!("{what}: span [{s},{e}) outside file of length {len}")));
    }
}

// ------------------------------------------------------------------ stages

fn stage<T>(o: &mut Outcome, name: &str, f: impl FnOnce(&mut Outcome) -> T) -> Option<T> {
    match catch_unwind(AssertUnwindSafe(|| f(o))) {
        Ok(v) => Some(v),
        Err(e) => {
            o.problems.push(("panic".into(), name.into(), panic_msg(e)));
            None
        }
    }
}

/// Lexer + parser + tree laws (+ formatter when `format`), in a parser-only database.
fn run_parse(db: &SimpleParserDatabase, text: &str, format: bool, corrupt: usize) -> Outcome {
    let mut o = Outcome::default();
    let db: &dyn Database = db;
    if let Some(lex) = stage(&mut o, "lex", |_| run_lexer(db, text)) {
        let total: usize =
            lex.iter().map(|t| t.text + t.lead.iter().map(|x| x.w).sum::<usize>() + t.trail.iter().map(|x| x.w).sum::<usize>()).sum();
        if total != text.len() {
            o.problems.push(("lex_tiling".into(), "lex".into(), format!("terminal widths sum to {total}, input has {} bytes", text.len())));
        }
        o.lex = lex;
    }
    let file = vfile(db, "parser_input", text);
    let root = stage(&mut o, "parse", |o| {
        let root = db.file_syntax(file).expect("file_syntax failed on a virtual file");
        for d in db.file_syntax_diagnostics(file).get_all() {
            let (s, e) = (d.span.start.as_u32() as usize, d.span.end.as_u32() as usize);
            o.diags.push((s, e));
        }
        root
    });
    let Some(root) = root else { return o };
    o.parsed = true;
    let diags = o.diags.clone();
    for (s, e) in diags {
        check_span(&mut o, "parse", s, e, text.len(), "parser diagnostic");
    }
    stage(&mut o, "parse_diag_format", |_| db.file_syntax_diagnostics(file).format(db));
    stage(&mut o, "tree_walk", |o| walk_tree(db, root, text, o));
    if o.problems.iter().any(|p| p.0 == "law") {
        let sig = match catch_unwind(AssertUnwindSafe(|| repaired_text(db, root))) {
            Ok(r) if r == text => "skipped_node_after_pending",
            _ => "other",
        };
        o.signature = sig.to_string();
    }
    if corrupt == 1 && !o.leaves.is_empty() {
        // self-test of the binding: corrupt one recorded field
        let i = o.leaves.len() / 2;
        o.leaves[i].w += 1;
    }
    if format {
        if stage(&mut o, "format", |_| get_formatted_file(db, &root, FormatterConfig::default())).is_some() {
            o.formatted = true;
        }
    }
    o
}

const CRATE_SETTINGS: &str = "edition = \"2024_07\"\n\n[experimental_features]\nnegative_impls = true\nassociated_item_constraints = true\ncoupons = true\nuser_defined_inline_macros = true\nrepr_ptrs = true\n";

fn new_root_db() -> RootDatabase {
    let mut b = RootDatabase::builder();
    b.with_default_plugin_suite(cairo_lang_starknet::starknet_plugin_suite());
    let mut db = b.build().expect("RootDatabase build");
    init_dev_corelib(&mut db, cvh::util::corelib_src());
    db
}

fn span_in_file(db: &dyn Database, o: &mut Outcome, stage: &str, loc: SpanInFile<'_>, what: &str) {
    let len = db.file_content(loc.file_id).map(|c| c.len());
    let (s, e) = (loc.span.start.as_u32() as usize, loc.span.end.as_u32() as usize);
    match len {
        Some(len) => check_span(o, stage, s, e, len, what),
        None => o.problems.push(("diag_span".into(), stage.into(), format!("{what}: file of the location has no content"))),
    }
}

/// Semantic + lowering diagnostics of the text as the root module of a virtual crate.
fn run_full(db: &RootDatabase, text: &str, o: &mut Outcome) {
    let dbd: &dyn Database = db;
    let file = vfile(dbd, "lib.cairo", text);
    let crate_id = CrateLongId::Virtual {
        name: SmolStrId::from(dbd, "test"),
        file_id: file,
        settings: CRATE_SETTINGS.to_string(),
        cache_file: None,
    }
    .intern(dbd);
    let ok = stage(o, "diagnostics", |o| {
        let mut n = 0usize;
        let mut seen_files = std::collections::HashSet::new();
        for module_id in dbd.crate_modules(crate_id).iter() {
            let module_id: ModuleId<'_> = *module_id;
            if let Ok(files) = dbd.module_files(module_id) {
                for f in files.iter().copied() {
                    if !seen_files.insert(f) {
                        continue;
                    }
                    let ds = dbd.file_syntax_diagnostics(f);
                    for d in ds.get_all() {
                        n += 1;
                        let loc = d.location(dbd);
                        span_in_file(dbd, o, "diagnostics", loc, "parser diagnostic");
                        span_in_file(dbd, o, "diagnostics", loc.user_location(dbd), "parser diagnostic (user location)");
                    }
                    let _ = ds.format(dbd);
                }
            }
            if let Ok(group) = dbd.module_semantic_diagnostics(module_id) {
                for d in group.get_all() {
                    n += 1;
                    let loc = d.location(dbd);
                    span_in_file(dbd, o, "diagnostics", loc, "semantic diagnostic");
                    span_in_file(dbd, o, "diagnostics", loc.user_location(dbd), "semantic diagnostic (user location)");
                    for note in d.notes(dbd) {
                        if let Some(l) = note.location {
                            span_in_file(dbd, o, "diagnostics", l, "semantic diagnostic note");
                        }
                    }
                }
                let _ = group.format(dbd);
            }
            if let Ok(group) = dbd.module_lowering_diagnostics(module_id) {
                for d in group.get_all() {
                    n += 1;
                    let loc = d.location(dbd);
                    span_in_file(dbd, o, "diagnostics", loc, "lowering diagnostic");
                    span_in_file(dbd, o, "diagnostics", loc.user_location(dbd), "lowering diagnostic (user location)");
                }
                let _ = group.format(dbd);
            }
        }
        // the reporter entry point named by the property (`DiagnosticsReporter::check`)
        let ci = crate_id.long(dbd).clone().into_crate_input(dbd);
        let mut sink = 0usize;
        let mut rep = cairo_lang_compiler::diagnostics::DiagnosticsReporter::callback(|e| sink += e.message().len())
            .with_crates(&[ci]);
        rep.check(dbd);
        drop(rep);
        n
    });
    if let Some(n) = ok {
        o.full = true;
        o.n_sem_diags = n;
    }
}

// ------------------------------------------------------------------ trace rendering

fn trivs_json(t: &[Triv]) -> Value {
    Value::Array(t.iter().map(|x| json!({"k": x.k, "w": x.w})).collect())
}

/// Token kinds the acceptor treats specially keep their names; every other token kind is renamed to
/// K1, K2, ... in order of first occurrence (a bijective renaming per trace: the acceptor only compares
/// kinds for equality), so that inputs differing only in WHICH ordinary token occurs share one trace.
fn special_kind(k: &str) -> bool {
    matches!(
        k,
        "TokenEndOfFile" | "TokenSkipped" | "TokenMissing" | "TokenEmpty" | "TokenAndAnd" | "TokenOrOr" | "TokenGE"
            | "TokenAnd" | "TokenOr" | "TokenGT" | "TokenEq" | "TokenWhitespace" | "TokenNewline"
            | "TokenSingleLineComment" | "TokenSingleLineDocComment" | "TokenSingleLineInnerComment"
    )
}
fn special_terminal(k: &str) -> bool {
    matches!(k, "TerminalEndOfFile" | "TerminalAndAnd" | "TerminalOrOr" | "TerminalGE")
}

/// The abstract trace of one input as NDJSON lines (without the id, which is added when written).
fn render_trace(text_len: usize, o: &Outcome) -> Vec<Value> {
    let mut v = vec![];
    let mut names: HashMap<String, String> = HashMap::new();
    let mut canon = |k: &str| -> String {
        if special_kind(k) {
            return k.to_string();
        }
        let n = names.len() + 1;
        names.entry(k.to_string()).or_insert_with(|| format!("K{n}")).clone()
    };
    for t in &o.lex {
        // `tk`: kind of the token inside the terminal (naming convention of the generated syntax: TerminalX / TokenX)
        let tk = canon(&format!("Token{}", t.kind.strip_prefix("Terminal").unwrap_or(&t.kind)));
        let kind = if special_terminal(&t.kind) { t.kind.clone() } else { "T".to_string() };
        v.push(json!({"e":"lex","kind":kind,"tk":tk,"lead":trivs_json(&t.lead),"text":t.text,"trail":trivs_json(&t.trail)}));
    }
    for l in &o.leaves {
        v.push(json!({"e":"leaf","c":l.c,"k":canon(&l.k),"w":l.w,"p":l.p,"d":l.d,"gs":l.gs}));
    }
    let crashed = o.problems.iter().find(|p| p.0 == "panic" && matches!(p.1.as_str(), "lex" | "parse" | "tree_walk"));
    match crashed {
        Some(p) => v.push(json!({"e":"panic","at":p.1})),
        None => v.push(json!({"e":"tree","w":o.root_w,"len":text_len,"n":o.leaves.len(),
            "diags": Value::Array(o.diags.iter().map(|(s,e)| json!({"s":s,"t":e})).collect())})),
    }
    v
}

// ------------------------------------------------------------------ run

struct Input {
    id: u64,
    text: String,
    pred_len: Option<usize>,
    /// the input line without its text, as compact JSON (kept as a string: millions of inputs)
    origin: String,
}
impl Input {
    fn origin(&self) -> Value {
        serde_json::from_str(&self.origin).unwrap_or(Value::Null)
    }
}

#[derive(Default)]
struct Stats {
    inputs: AtomicUsize,
    parsed: AtomicUsize,
    formatted: AtomicUsize,
    full: AtomicUsize,
    with_skipped: AtomicUsize,
    with_missing: AtomicUsize,
    with_skipped_node: AtomicUsize,
    with_diags: AtomicUsize,
    leaves: AtomicUsize,
    terminals: AtomicUsize,
    nodes: AtomicUsize,
    sem_diags: AtomicUsize,
    bytes: AtomicUsize,
    traced: AtomicUsize,
    len_pred_checked: AtomicUsize,
}

fn arg_val(args: &[String], name: &str) -> Option<String> {
    args.iter().position(|a| a == name).and_then(|i| args.get(i + 1)).cloned()
}

fn cmd_run(args: &[String]) {
    let inputs_path = &args[0];
    let outdir = &args[1];
    let mode = arg_val(args, "--mode").unwrap_or_else(|| "parse".into());
    let threads: usize = arg_val(args, "--threads").and_then(|s| s.parse().ok()).unwrap_or(16);
    let stack_mb: usize = arg_val(args, "--stack-mb").and_then(|s| s.parse().ok()).unwrap_or(8);
    let budget_ms: u64 = arg_val(args, "--budget-ms").and_then(|s| s.parse().ok()).unwrap_or(5000);
    let trace_max: usize = arg_val(args, "--trace-max-terms").and_then(|s| s.parse().ok()).unwrap_or(40);
    let corrupt: usize = arg_val(args, "--corrupt").and_then(|s| s.parse().ok()).unwrap_or(0);
    let exclude: std::collections::HashSet<u64> = arg_val(args, "--exclude")
        .map(|s| s.split(',').filter_map(|x| x.parse().ok()).collect())
        .unwrap_or_default();
    std::fs::create_dir_all(outdir).unwrap();

    // quiet panic hook that remembers the panic location for the report
    std::panic::set_hook(Box::new(|info| {
        let mut loc = info.location().map(|l| format!("{}:{}", l.file(), l.line())).unwrap_or_default();
        // a panic raised inside a dependency (itertools, salsa, ...): name the innermost frame of the
        // repository's own crates (symbol only; limited to the first panics of the process - it is slow)
        static BT_BUDGET: AtomicUsize = AtomicUsize::new(300);
        if !loc.contains("/crates/cairo-lang-")
            && BT_BUDGET.fetch_update(Ordering::SeqCst, Ordering::SeqCst, |x| x.checked_sub(1)).is_ok()
        {
            let bt = std::backtrace::Backtrace::force_capture().to_string();
            if let Some(frame) = bt.lines().map(|l| l.trim()).find(|l| {
                l.contains("cairo_lang_") && !l.contains("cairo_lang_utils") && !l.contains("parse_trace")
            }) {
                let sym = frame.split_once(": ").map(|x| x.1).unwrap_or(frame);
                loc = format!("{loc} [in {sym}]");
            }
        }
        LAST_PANIC_LOC.with(|l| *l.borrow_mut() = Some(loc));
    }));

    let mut inputs = vec![];
    let mut bad_inputs = vec![];
    {
        use std::io::BufRead;
        let f = std::fs::File::open(inputs_path).unwrap_or_else(|e| panic!("open {inputs_path}: {e}"));
        for (i, line) in std::io::BufReader::new(f).lines().enumerate() {
            let line = line.unwrap();
            if line.trim().is_empty() {
                continue;
            }
            let mut v: Value = serde_json::from_str(&line).unwrap_or_else(|e| panic!("bad json line {i}: {e}"));
            let id = v["id"].as_u64().unwrap_or(i as u64);
            if exclude.contains(&id) {
                continue;
            }
            match parser_gen::concretise(&v) {
                Ok((text, pred_len)) => {
                    if let Some(m) = v.as_object_mut() {
                        m.remove("text");
                    }
                    inputs.push(Input { id, text, pred_len, origin: serde_json::to_string(&v).unwrap() });
                }
                Err(e) => bad_inputs.push(format!("{id}: {e}")),
            }
        }
        inputs.shrink_to_fit();
    }
    if !bad_inputs.is_empty() {
        eprintln!("parse_trace: unusable input lines: {:?}", &bad_inputs[..bad_inputs.len().min(5)]);
        std::process::exit(3);
    }
    let inputs = Arc::new(inputs);
    let next = Arc::new(AtomicUsize::new(0));
    let stats = Arc::new(Stats::default());
    let results = Arc::new(Mutex::new(Vec::<Value>::new()));
    // abstract trace -> (count, first id, events)
    let traces = Arc::new(Mutex::new(HashMap::<(u64, u64), (usize, u64, usize)>::new()));
    // (first input id, events as NDJSON text, #lex, #leaf, non-trivial) - kept as text: ~10x smaller than Values
    let trace_store = Arc::new(Mutex::new(Vec::<(u64, String, usize, usize, bool)>::new()));
    // per-thread in-flight marker: (input index + 1, start millis since t0)
    let t0 = Instant::now();
    let inflight: Arc<Vec<(AtomicUsize, AtomicU64)>> =
        Arc::new((0..threads).map(|_| (AtomicUsize::new(0), AtomicU64::new(0))).collect());
    let stuck: Arc<Vec<AtomicBool>> = Arc::new((0..threads).map(|_| AtomicBool::new(false)).collect());
    let done_threads = Arc::new(AtomicUsize::new(0));
    let inflight_path = format!("{outdir}/inflight");
    let _ = std::fs::remove_file(&inflight_path);
    let inflight_file = Arc::new(std::fs::OpenOptions::new().create(true).write(true).read(true).open(&inflight_path).unwrap());
    inflight_file.set_len((threads * 24) as u64).unwrap();

    let mut handles = vec![];
    for t in 0..threads {
        let (inputs, next, stats, results, traces, trace_store, inflight, done_threads, inflight_file) = (
            inputs.clone(),
            next.clone(),
            stats.clone(),
            results.clone(),
            traces.clone(),
            trace_store.clone(),
            inflight.clone(),
            done_threads.clone(),
            inflight_file.clone(),
        );
        let mode = mode.clone();
        let h = std::thread::Builder::new()
            .stack_size(stack_mb << 20)
            .name(format!("w{t}"))
            .spawn(move || {
                use std::os::unix::fs::FileExt;
                let mut pdb = SimpleParserDatabase::default();
                let mut pdb_uses = 0usize;
                let mut pdb_bytes = 0usize;
                let mut root_db: Option<RootDatabase> = None;
                let mut db_uses = 0usize;
                if mode == "full" {
                    // warm the corelib outside any budget
                    let db = new_root_db();
                    let mut o = Outcome::default();
                    run_full(&db, "fn main() -> Option<felt252> { let a = array![1]; Some(*a.at(0)) }", &mut o);
                    root_db = Some(db);
                }
                loop {
                    let i = next.fetch_add(1, Ordering::SeqCst);
                    if i >= inputs.len() {
                        break;
                    }
                    let inp = &inputs[i];
                    let _ = inflight_file.write_at(format!("{:>22}\n", inp.id).as_bytes(), (t * 24) as u64);
                    inflight[t].1.store(t0.elapsed().as_millis() as u64, Ordering::SeqCst);
                    inflight[t].0.store(i + 1, Ordering::SeqCst);
                    if pdb_uses >= 256 || pdb_bytes > (8 << 20) {
                        pdb = SimpleParserDatabase::default();
                        pdb_uses = 0;
                        pdb_bytes = 0;
                    }
                    pdb_uses += 1;
                    pdb_bytes += inp.text.len();
                    let mut o = run_parse(&pdb, &inp.text, mode != "parse", corrupt);
                    if o.problems.iter().any(|p| p.0 == "panic") {
                        pdb_uses = usize::MAX / 2; // do not reuse a database a query panicked in
                    }
                    if mode == "full" {
                        if root_db.is_none() || db_uses >= 400 {
                            root_db = Some(new_root_db());
                            db_uses = 0;
                        }
                        db_uses += 1;
                        run_full(root_db.as_ref().unwrap(), &inp.text, &mut o);
                        if o.problems.iter().any(|p| p.0 == "panic" && p.1 == "diagnostics") {
                            root_db = None; // do not trust a database a query panicked in
                        }
                    }
                    inflight[t].0.store(0, Ordering::SeqCst);
                    let _ = inflight_file.write_at(format!("{:>22}\n", "-").as_bytes(), (t * 24) as u64);
                    // statistics
                    stats.inputs.fetch_add(1, Ordering::Relaxed);
                    stats.bytes.fetch_add(inp.text.len(), Ordering::Relaxed);
                    if o.parsed {
                        stats.parsed.fetch_add(1, Ordering::Relaxed);
                    }
                    if o.formatted {
                        stats.formatted.fetch_add(1, Ordering::Relaxed);
                    }
                    if o.full {
                        stats.full.fetch_add(1, Ordering::Relaxed);
                    }
                    stats.leaves.fetch_add(o.leaves.len(), Ordering::Relaxed);
                    stats.terminals.fetch_add(o.lex.len(), Ordering::Relaxed);
                    stats.nodes.fetch_add(o.n_nodes, Ordering::Relaxed);
                    stats.sem_diags.fetch_add(o.n_sem_diags, Ordering::Relaxed);
                    if o.leaves.iter().any(|l| l.c == "skip") {
                        stats.with_skipped.fetch_add(1, Ordering::Relaxed);
                    }
                    if o.leaves.iter().any(|l| l.c == "miss") {
                        stats.with_missing.fetch_add(1, Ordering::Relaxed);
                    }
                    if o.n_skipped_nodes > 0 {
                        stats.with_skipped_node.fetch_add(1, Ordering::Relaxed);
                    }
                    if !o.diags.is_empty() {
                        stats.with_diags.fetch_add(1, Ordering::Relaxed);
                    }
                    if let Some(pl) = inp.pred_len {
                        stats.len_pred_checked.fetch_add(1, Ordering::Relaxed);
                        if pl != inp.text.len() {
                            o.problems.push(("len_pred".into(), "lexmodel".into(), format!("LexModel predicts {pl} bytes, concrete text has {}", inp.text.len())));
                        } else if o.parsed && o.root_w != pl {
                            o.problems.push(("len_pred".into(), "lexmodel".into(), format!("LexModel predicts {pl} bytes, root width is {}", o.root_w)));
                        }
                    }
                    for (kind, stage, detail) in &o.problems {
                        results.lock().unwrap().push(json!({"id": inp.id, "kind": kind, "stage": stage, "detail": detail,
                            "signature": o.signature, "text": inp.text, "origin": inp.origin()}));
                    }
                    // trace (deduplicated on the abstract content)
                    if trace_max > 0 && !o.lex.is_empty() && o.lex.len() <= trace_max {
                        let ev = render_trace(inp.text.len(), &o);
                        // 128-bit digest of the abstract content (two independent 64-bit hashes)
                        let key = {
                            use std::hash::{Hash, Hasher};
                            let text = serde_json::to_string(&ev).unwrap();
                            let mut h1 = std::collections::hash_map::DefaultHasher::new();
                            text.hash(&mut h1);
                            let mut h2 = std::collections::hash_map::DefaultHasher::new();
                            (0x9E37_79B9_7F4A_7C15u64, &text, text.len()).hash(&mut h2);
                            (h1.finish(), h2.finish())
                        };
                        let mut m = traces.lock().unwrap();
                        match m.get_mut(&key) {
                            Some(e) => e.0 += 1,
                            None => {
                                let nontrivial = ev.iter().any(|e| {
                                    e["e"] == "leaf" && (e["c"] == "skip" || e["c"] == "miss" || e["d"].as_u64().unwrap_or(0) > 0)
                                });
                                let nl = ev.iter().filter(|e| e["e"] == "lex").count();
                                let nf = ev.iter().filter(|e| e["e"] == "leaf").count();
                                let mut text = String::new();
                                for e in &ev {
                                    text.push_str(&serde_json::to_string(e).unwrap());
                                    text.push('\n');
                                }
                                let mut ts = trace_store.lock().unwrap();
                                m.insert(key, (1, inp.id, ts.len()));
                                ts.push((inp.id, text, nl, nf, nontrivial));
                            }
                        }
                        stats.traced.fetch_add(1, Ordering::Relaxed);
                    }
                }
                done_threads.fetch_add(1, Ordering::SeqCst);
            })
            .unwrap();
        handles.push(h);
    }

    // watchdog: a worker that exceeds the budget on one input is reported as a suspect; it is left
    // behind (threads cannot be killed) and the run ends when all other workers are done.
    loop {
        std::thread::sleep(Duration::from_millis(50));
        let now = t0.elapsed().as_millis() as u64;
        let mut n_stuck = 0;
        for t in 0..threads {
            let i = inflight[t].0.load(Ordering::SeqCst);
            if stuck[t].load(Ordering::SeqCst) {
                n_stuck += 1;
                continue;
            }
            if i > 0 && now.saturating_sub(inflight[t].1.load(Ordering::SeqCst)) > budget_ms {
                // re-check that it is still the same input
                if inflight[t].0.load(Ordering::SeqCst) == i {
                    stuck[t].store(true, Ordering::SeqCst);
                    n_stuck += 1;
                    let inp = &inputs[i - 1];
                    results.lock().unwrap().push(json!({"id": inp.id, "kind": "timeout_suspect", "stage": mode, "detail": format!("no result within {budget_ms} ms"),
                        "text": inp.text, "origin": inp.origin()}));
                }
            }
        }
        if done_threads.load(Ordering::SeqCst) + n_stuck >= threads {
            break;
        }
    }

    // write outputs
    let mut w = NdjsonWriter::create(&format!("{outdir}/results.ndjson"));
    let mut res = results.lock().unwrap().clone();
    res.sort_by_key(|v| v["id"].as_u64().unwrap_or(0));
    for r in &res {
        w.write(r);
    }
    w.finish();
    let mut tw = std::io::BufWriter::new(std::fs::File::create(format!("{outdir}/traces.ndjson")).unwrap());
    let m = traces.lock().unwrap();
    let ts = trace_store.lock().unwrap();
    let mut counts: HashMap<usize, usize> = HashMap::new();
    for (_k, (c, _id, idx)) in m.iter() {
        counts.insert(*idx, *c);
    }
    let mut order: Vec<usize> = (0..ts.len()).collect();
    order.sort_by_key(|i| ts[*i].0);
    let mut distinct_nontrivial = 0usize;
    let mut n_events = 0usize;
    for (seq, i) in order.iter().enumerate() {
        let (id, text, nl, nf, nontrivial) = &ts[*i];
        if *nontrivial {
            distinct_nontrivial += 1;
        }
        let reset = json!({"e":"reset","id":seq + 1,"input":id,"n":counts.get(i).copied().unwrap_or(1),"nl":nl,"nf":nf});
        writeln!(tw, "{}", serde_json::to_string(&reset).unwrap()).unwrap();
        tw.write_all(text.as_bytes()).unwrap();
        n_events += nl + nf + 2;
    }
    tw.flush().unwrap();
    drop(tw);
    let s = &stats;
    let ld = |a: &AtomicUsize| a.load(Ordering::Relaxed);
    let summary = json!({
        "mode": mode, "inputs": ld(&s.inputs), "parsed": ld(&s.parsed), "formatted": ld(&s.formatted), "full": ld(&s.full),
        "with_skipped_token": ld(&s.with_skipped), "with_missing": ld(&s.with_missing), "with_skipped_node": ld(&s.with_skipped_node),
        "with_parser_diags": ld(&s.with_diags), "leaves": ld(&s.leaves), "terminals": ld(&s.terminals), "nodes": ld(&s.nodes),
        "sem_diags": ld(&s.sem_diags), "bytes": ld(&s.bytes), "traced_inputs": ld(&s.traced), "distinct_traces": ts.len(),
        "distinct_nontrivial_traces": distinct_nontrivial, "trace_events": n_events, "len_pred_checked": ld(&s.len_pred_checked),
        "problems": res.len(), "stuck_threads": stuck.iter().filter(|b| b.load(Ordering::SeqCst)).count(),
        "wall_ms": t0.elapsed().as_millis() as u64, "stack_mb": stack_mb, "threads": threads,
    });
    std::fs::write(format!("{outdir}/summary.json"), serde_json::to_string_pretty(&summary).unwrap()).unwrap();
    println!("{}", serde_json::to_string(&summary).unwrap());
    std::io::stdout().flush().unwrap();
    // stuck threads would keep the process alive
    std::process::exit(0);
}

fn write_texts(path: &str, items: Vec<(String, String)>, start_id: u64) {
    let mut w = NdjsonWriter::create(path);
    for (i, (origin, text)) in items.into_iter().enumerate() {
        w.write(&json!({"k":"text","id": start_id + i as u64,"origin":origin,"text":text}));
    }
    w.finish();
}

fn main() {
    let args: Vec<String> = std::env::args().skip(1).collect();
    if args.is_empty() {
        eprintln!("usage: parse_trace run|gen-mutants|gen-corpus|gen-nesting ...");
        std::process::exit(3);
    }
    let start_id: u64 = arg_val(&args, "--start-id").and_then(|s| s.parse().ok()).unwrap_or(1);
    match args[0].as_str() {
        "run" => cmd_run(&args[1..]),
        "concretise" => {
            let mut w = NdjsonWriter::create(&args[2]);
            for v in read_ndjson(&args[1]) {
                match parser_gen::concretise(&v) {
                    Ok((text, _)) => w.write(&json!({"id": v["id"], "text": text})),
                    Err(e) => {
                        eprintln!("concretise: {e}");
                        std::process::exit(3);
                    }
                }
            }
            w.finish();
        }
        "gen-corpus" => {
            let corpus = parser_gen::collect_corpus(&repo_root());
            println!("{{\"corpus\":{}}}", corpus.len());
            write_texts(&args[1], corpus, start_id);
        }
        "gen-mutants" => {
            let n: usize = args[2].parse().unwrap();
            let cap: usize = arg_val(&args, "--cap").and_then(|s| s.parse().ok()).unwrap_or(200);
            let max_len: usize = arg_val(&args, "--max-len").and_then(|s| s.parse().ok()).unwrap_or(200_000);
            let corpus = parser_gen::collect_corpus(&repo_root());
            let m = parser_gen::gen_mutants(&corpus, n, seed_from_env(), cap, max_len);
            println!("{{\"corpus\":{},\"mutants\":{}}}", corpus.len(), m.len());
            write_texts(&args[1], m, start_id);
        }
        "gen-nesting" => {
            let cap: usize = arg_val(&args, "--cap").and_then(|s| s.parse().ok()).unwrap_or(200);
            let p = parser_gen::nesting_probes(cap);
            println!("{{\"probes\":{}}}", p.len());
            write_texts(&args[1], p, start_id);
        }
        x => {
            eprintln!("unknown command {x}");
            std::process::exit(3);
        }
    }
}

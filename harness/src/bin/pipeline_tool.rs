//! pipeline_tool — C14: untrusted Sierra through every public stage, logging stage outcomes.
//!
//! usage: pipeline_tool <jobs.json> <outdir>
//!   jobs.json: {"seed":n, "threads":n, "jobs":[
//!       {"id","kind":"sierra"|"cairo","path", "mutants":n, "multi":n}            // program mutants
//!     | {"id","kind":"class","path", "mutants":n}                                  // felt-vector mutants of a contract class
//!     | {"id","kind":"felts","count":n}                                            // random felt vectors
//!     | {"id","kind":"replay_prog","sierra":"…"} | {"id","kind":"replay_felts","class_path":…, "felts":[hex…]} ]}
//!   writes <outdir>/stages.ndjson (reset / stage / panic events, DESIGN A.7) and
//!          <outdir>/inputs.ndjson (id -> plan / mutated input needed to replay a finding)
//!          <outdir>/inflight.<thread> (the input a thread is working on; survives a crash or hang)
#[path = "../sierra_common.rs"]
mod sierra_common;
#[path = "../sierra_mutate.rs"]
mod sierra_mutate;

use std::cell::RefCell;
use std::panic::{AssertUnwindSafe, catch_unwind};
use std::path::Path;
use std::sync::Mutex;
use std::time::Instant;

use cairo_lang_sierra::ProgramParser;
use cairo_lang_sierra::program::Program;
use cairo_lang_sierra_to_casm::compiler::SierraToCasmConfig;
use cairo_lang_sierra_to_casm::metadata::calc_metadata;
use cairo_lang_sierra_type_size::ProgramRegistryInfo;
use cairo_lang_starknet_classes::casm_contract_class::CasmContractClass;
use cairo_lang_starknet_classes::contract_class::ContractClass;
use cairo_lang_utils::bigint::BigUintAsHex;
use cvh::util::{NdjsonWriter, Rng};
use num_bigint::BigUint;
use rayon::prelude::*;
use serde_json::{Value, json};
use sierra_common::*;

thread_local! {
    static LAST_PANIC: RefCell<Option<(String, String)>> = const { RefCell::new(None) };
}

fn install_hook() {
    std::panic::set_hook(Box::new(|info| {
        let loc = info.location().map(|l| format!("{}:{}", l.file(), l.line())).unwrap_or_default();
        let msg = info
            .payload()
            .downcast_ref::<String>()
            .cloned()
            .or_else(|| info.payload().downcast_ref::<&str>().map(|s| s.to_string()))
            .unwrap_or_default();
        if std::env::var("CVH_LOUD").is_ok() {
            eprintln!("PANIC at {loc}: {msg}\n{}", std::backtrace::Backtrace::force_capture());
        }
        LAST_PANIC.with(|c| *c.borrow_mut() = Some((loc, msg)));
    }));
}

/// Normalises a panic location to a repo-relative path (stable across checkouts).
fn norm_loc(loc: &str) -> String {
    match loc.find("crates/") {
        Some(i) => loc[i..].to_string(),
        None => match loc.find(".cargo/registry/src/") {
            Some(i) => loc[i..].splitn(5, '/').last().unwrap_or(loc).to_string(),
            None => loc.to_string(),
        },
    }
}

struct Log {
    ev: Vec<Value>,
}
impl Log {
    /// Runs one stage under catch_unwind; returns Some(value) on Ok.
    fn stage<T, E: std::fmt::Display>(&mut self, name: &str, f: impl FnOnce() -> Result<T, E>) -> Option<T> {
        let t0 = Instant::now();
        LAST_PANIC.with(|c| *c.borrow_mut() = None);
        let r = catch_unwind(AssertUnwindSafe(f));
        let ms = t0.elapsed().as_millis() as u64;
        match r {
            Ok(Ok(v)) => {
                self.ev.push(json!({"e":"stage","name":name,"out":"ok","err":"","ms":ms}));
                Some(v)
            }
            Ok(Err(e)) => {
                let mut s = format!("{e}");
                s.truncate(160);
                self.ev.push(json!({"e":"stage","name":name,"out":"err","err":s,"ms":ms}));
                None
            }
            Err(_) => {
                let (loc, msg) = LAST_PANIC.with(|c| c.borrow_mut().take()).unwrap_or_default();
                let mut m = msg;
                m.truncate(160);
                self.ev.push(json!({"e":"panic","stage":name,"at":norm_loc(&loc),"msg":m,"ms":ms}));
                None
            }
        }
    }
}

fn program_stages(id: &str, program: &Program, lp_limit: usize) -> Vec<Value> {
    let mut log = Log { ev: vec![json!({"e":"reset","id":id})] };
    let Some(info) = log.stage("registry", || ProgramRegistryInfo::new(program)) else { return log.ev };
    let md = log.stage("metadata_linear", || calc_metadata(program, &info, metadata_config(true)));
    if program.statements.len() <= lp_limit {
        let _ = log.stage("metadata_lp", || calc_metadata(program, &info, metadata_config(false)));
    }
    if let Some(md) = md {
        let _ = log.stage("compile", || {
            cairo_lang_sierra_to_casm::compiler::compile(
                program,
                &info,
                &md,
                SierraToCasmConfig { gas_usage_check: true, max_bytecode_size: 1 << 22 },
            )
        });
    }
    log.ev
}

fn class_stages(id: &str, class: &ContractClass) -> Vec<Value> {
    let mut log = Log { ev: vec![json!({"e":"reset","id":id})] };
    let Some(ex) = log.stage("extract", || class.extract_sierra_program(false)) else { return log.ev };
    let cc = class.clone();
    let _ = log.stage("casm_class", || CasmContractClass::from_contract_class(cc, ex, false, 1 << 20));
    log.ev
}

fn mutate_felts(v: &[BigUintAsHex], rng: &mut Rng) -> (Vec<BigUintAsHex>, String) {
    let mut out = v.to_vec();
    if out.is_empty() {
        return (vec![BigUintAsHex { value: BigUint::from(rng.below(5)) }], "was-empty".into());
    }
    let n = out.len();
    let big = |x: u64| BigUintAsHex { value: BigUint::from(x) };
    let desc;
    match rng.below(8) {
        0 => {
            let i = rng.below(n as u64) as usize;
            out[i] = big(rng.below(40));
            desc = format!("set[{i}]small");
        }
        1 => {
            let i = rng.below(n as u64) as usize;
            out[i] = big(u64::MAX - rng.below(3));
            desc = format!("set[{i}]huge");
        }
        2 => {
            let k = rng.below(n as u64) as usize;
            out.truncate(k);
            desc = format!("truncate {k}");
        }
        3 => {
            let i = rng.below(n as u64) as usize;
            out.remove(i);
            desc = format!("remove {i}");
        }
        4 => {
            let i = rng.below(n as u64) as usize;
            let x = out[i].clone();
            out.insert(i, x);
            desc = format!("dup {i}");
        }
        5 => {
            let i = rng.below(n as u64) as usize;
            let j = rng.below(n as u64) as usize;
            out.swap(i, j);
            desc = format!("swap {i} {j}");
        }
        6 => {
            let i = rng.below(n as u64) as usize;
            let one = BigUint::from(1u32);
            out[i] = BigUintAsHex { value: &out[i].value + &one };
            desc = format!("inc {i}");
        }
        _ => {
            // a length-like prefix position: early words are versions and vector lengths
            let i = rng.below(12.min(n as u64)) as usize;
            out[i] = big(1 << rng.range(20, 62));
            desc = format!("len[{i}]huge");
        }
    }
    (out, desc)
}

static INPUT_STARTED: std::sync::atomic::AtomicU64 = std::sync::atomic::AtomicU64::new(0);
fn now_s() -> u64 {
    std::time::SystemTime::now().duration_since(std::time::UNIX_EPOCH).map(|d| d.as_secs()).unwrap_or(0)
}

fn run_worker(args: &[String]) {
    install_hook();
    // watchdog: an input that does not finish within the limit is a hang (exit 124, the parent records the in-flight input)
    std::thread::spawn(|| loop {
        std::thread::sleep(std::time::Duration::from_secs(2));
        let t0 = INPUT_STARTED.load(std::sync::atomic::Ordering::Relaxed);
        let limit: u64 = std::env::var("CVH_INPUT_TIMEOUT_S").ok().and_then(|s| s.parse().ok()).unwrap_or(300);
        if t0 != 0 && now_s().saturating_sub(t0) > limit {
            std::process::exit(124);
        }
    });
    let spec: Value = serde_json::from_str(&std::fs::read_to_string(&args[0]).unwrap()).unwrap();
    let outdir = args[1].clone();
    let start_at: std::collections::BTreeMap<String, usize> = spec.get("start_at").and_then(|m| m.as_object()).map(|m| m.iter().map(|(k, v)| (k.clone(), v.as_u64().unwrap_or(0) as usize)).collect()).unwrap_or_default();
    std::fs::create_dir_all(&outdir).unwrap();
    let seed = spec.get("seed").and_then(|x| x.as_u64()).unwrap_or(1);
    let threads = spec.get("threads").and_then(|x| x.as_u64()).unwrap_or(14) as usize;
    let lp_limit = spec.get("lp_limit").and_then(|x| x.as_u64()).unwrap_or(400) as usize;
    let jobs = spec["jobs"].as_array().unwrap().clone();
    let stages = Mutex::new(NdjsonWriter::create(&format!("{outdir}/stages.ndjson")));
    let inputs = Mutex::new(NdjsonWriter::create(&format!("{outdir}/inputs.ndjson")));
    let counts = Mutex::new((0usize, 0usize)); // inputs, panics
    let pool = rayon::ThreadPoolBuilder::new().num_threads(threads).stack_size(256 << 20).build().unwrap();
    let emit = |ev: Vec<Value>, input: Value| {
        let panicked = ev.iter().any(|e| e["e"] == "panic");
        let slow = ev.iter().any(|e| e.get("ms").and_then(|m| m.as_u64()).unwrap_or(0) > 20_000);
        {
            let mut s = stages.lock().unwrap();
            for e in &ev {
                s.write(e);
            }
        }
        if panicked || slow {
            inputs.lock().unwrap().write(&input);
        }
        let mut c = counts.lock().unwrap();
        c.0 += 1;
        if panicked {
            c.1 += 1;
        }
    };
    let inflight = |what: &Value| {
        let t = rayon::current_thread_index().unwrap_or(0);
        let _ = std::fs::write(format!("{outdir}/inflight.{t}"), what.to_string());
        INPUT_STARTED.store(now_s(), std::sync::atomic::Ordering::Relaxed);
    };
    let job_done = |id: &str| {
        use std::io::Write;
        let t = rayon::current_thread_index().unwrap_or(0);
        let _ = std::fs::remove_file(format!("{outdir}/inflight.{t}"));
        INPUT_STARTED.store(0, std::sync::atomic::Ordering::Relaxed);
        if let Ok(mut f) = std::fs::OpenOptions::new().create(true).append(true).open(format!("{outdir}/done.txt")) {
            let _ = writeln!(f, "{id}");
        }
    };
    pool.install(|| {
        jobs.par_iter().for_each(|job| {
            let id = job["id"].as_str().unwrap().to_string();
            let mut rng = Rng::new(seed ^ id.bytes().fold(7u64, |a, b| a.wrapping_mul(131).wrapping_add(b as u64)));
            match job["kind"].as_str().unwrap() {
                "sierra" | "cairo" | "replay_prog" => {
                    let program: Result<Program, String> = match job["kind"].as_str().unwrap() {
                        "cairo" => catch_unwind(AssertUnwindSafe(|| compile_cairo(Path::new(job["path"].as_str().unwrap()), true, None)))
                            .unwrap_or_else(|_| Err("panic".into())),
                        "replay_prog" => match job.get("program_json").and_then(|j| j.as_str()).filter(|j| !j.is_empty()) {
                            Some(js) => serde_json::from_str::<Program>(js).map_err(|e| e.to_string()),
                            None => ProgramParser::new().parse(job["sierra"].as_str().unwrap()).map_err(|e| format!("{e:?}")),
                        },
                        _ => std::fs::read_to_string(job["path"].as_str().unwrap())
                            .map_err(|e| e.to_string())
                            .and_then(|t| ProgramParser::new().parse(&t).map_err(|e| format!("{e:?}"))),
                    };
                    let Ok(program) = program else { return };
                    inflight(&json!({"id": id}));
                    emit(program_stages(&id, &program, lp_limit), json!({"id": id, "kind": "prog", "sierra": catch_unwind(AssertUnwindSafe(|| program.to_string())).unwrap_or_default()}));
                    let n_mut = job.get("mutants").and_then(|x| x.as_u64()).unwrap_or(0) as usize;
                    let multi = job.get("multi").and_then(|x| x.as_u64()).unwrap_or(0) as usize;
                    let mut plans = if n_mut > 0 { sierra_mutate::boundary_plans(&program, job.get("boundary").and_then(|x| x.as_u64()).unwrap_or(400) as usize, &mut rng) } else { vec![] };
                    let n_mut = n_mut + plans.len();
                    plans.extend(sierra_mutate::plans(&program, n_mut - plans.len() + 2 * multi, &mut rng));
                    let mut k = 0;
                    let mut i = 0;
                    while i < plans.len() {
                        // the last `multi` mutants apply two plans
                        let take = if i >= n_mut { 2 } else { 1 };
                        let mut mp = Some(program.clone());
                        let mut desc = vec![];
                        for p in plans.iter().skip(i).take(take) {
                            mp = mp.and_then(|q| sierra_mutate::apply(&q, p));
                            desc.push(p.to_json());
                        }
                        i += take;
                        let Some(mp) = mp else { continue };
                        let mid = format!("{id}#m{k}");
                        k += 1;
                        if k <= start_at.get(&id).copied().unwrap_or(0) {
                            continue;
                        }
                        inflight(&json!({"id": mid, "job": id, "k": k, "kind": "prog", "plan": desc,
                                         "program_json": serde_json::to_string(&mp).unwrap_or_default()}));
                        let ev = program_stages(&mid, &mp, lp_limit);
                        // Display of an ill-formed program may itself panic (missing labels); it is not a stage of C14.
                        let text = catch_unwind(AssertUnwindSafe(|| mp.to_string())).unwrap_or_default();
                        let js = serde_json::to_string(&mp).unwrap_or_default();
                        emit(ev, json!({"id": mid, "kind": "prog", "plan": desc, "sierra": text, "program_json": js}));
                    }
                }
                "class" | "replay_felts" => {
                    let path = job.get("path").or(job.get("class_path")).and_then(|p| p.as_str()).unwrap();
                    let Ok(text) = std::fs::read_to_string(path) else { return };
                    let Ok(class) = serde_json::from_str::<ContractClass>(&text) else { return };
                    if job["kind"] == "replay_felts" {
                        let felts: Vec<BigUintAsHex> = job["felts"]
                            .as_array()
                            .unwrap()
                            .iter()
                            .map(|h| BigUintAsHex { value: BigUint::parse_bytes(h.as_str().unwrap().trim_start_matches("0x").as_bytes(), 16).unwrap() })
                            .collect();
                        let mc = ContractClass { sierra_program: felts, ..class.clone() };
                        emit(class_stages(&id, &mc), json!({"id": id}));
                        return;
                    }
                    inflight(&json!({"id": id}));
                    emit(class_stages(&id, &class), json!({"id": id, "kind": "class", "class_path": path}));
                    let n_mut = job.get("mutants").and_then(|x| x.as_u64()).unwrap_or(0) as usize;
                    // deterministic truncations at the boundaries of the container format: the version felts, the
                    // code book (its size is the 7th felt), the padding / length felts that follow it, the end
                    let total = class.sierra_program.len();
                    let code_size = class.sierra_program.get(6).and_then(|f| usize::try_from(&f.value).ok()).unwrap_or(0);
                    let mut cuts: Vec<usize> = (0..10).collect();
                    for base in [7 + code_size, 8 + code_size] {
                        for d in -2i64..=2 {
                            cuts.push((base as i64 + d).max(0) as usize);
                        }
                    }
                    cuts.extend([total.saturating_sub(1), total.saturating_sub(2)]);
                    cuts.retain(|c| *c < total);
                    cuts.sort();
                    cuts.dedup();
                    let n_cuts = if n_mut > 0 { cuts.len() } else { 0 };
                    for k in 0..(n_cuts + n_mut) {
                        let (mut felts, mut desc) = if k < n_cuts {
                            (class.sierra_program[..cuts[k]].to_vec(), format!("truncate {} (boundary)", cuts[k]))
                        } else {
                            mutate_felts(&class.sierra_program, &mut rng)
                        };
                        if k >= n_cuts && k % 4 == 3 {
                            let (f2, d2) = mutate_felts(&felts, &mut rng);
                            felts = f2;
                            desc = format!("{desc}; {d2}");
                        }
                        let mid = format!("{id}#f{k}");
                        if k < start_at.get(&id).copied().unwrap_or(0) {
                            continue;
                        }
                        inflight(&json!({"id": mid, "job": id, "k": k + 1, "kind": "class", "class_path": path, "desc": desc,
                                         "felts": felts.iter().map(|f| format!("{:#x}", f.value)).collect::<Vec<_>>()}));
                        let mc = ContractClass { sierra_program: felts.clone(), ..class.clone() };
                        emit(
                            class_stages(&mid, &mc),
                            json!({"id": mid, "kind": "class", "class_path": path, "desc": desc,
                                   "felts": felts.iter().map(|f| format!("{:#x}", f.value)).collect::<Vec<_>>()}),
                        );
                    }
                }
                "felts" => {
                    let n = job["count"].as_u64().unwrap() as usize;
                    for k in 0..n {
                        let len = rng.below(60) as usize;
                        let felts: Vec<BigUintAsHex> = (0..len)
                            .map(|_| BigUintAsHex {
                                value: if rng.chance(3, 4) { BigUint::from(rng.below(12)) } else { BigUint::from(rng.next_u64()) << rng.below(180) },
                            })
                            .collect();
                        let mid = format!("{id}#r{k}");
                        let mc = ContractClass {
                            sierra_program: felts.clone(),
                            sierra_program_debug_info: None,
                            contract_class_version: "0.1.0".into(),
                            entry_points_by_type: Default::default(),
                            abi: None,
                        };
                        emit(
                            class_stages(&mid, &mc),
                            json!({"id": mid, "kind": "felts", "felts": felts.iter().map(|f| format!("{:#x}", f.value)).collect::<Vec<_>>()}),
                        );
                    }
                }
                k => eprintln!("unknown kind {k}"),
            }
            job_done(&id);
        })
    });
    stages.into_inner().unwrap().finish();
    inputs.into_inner().unwrap().finish();
    let c = counts.lock().unwrap();
    println!("pipeline_tool: inputs={} with_panic={}", c.0, c.1);
}

/// Parent: run the jobs in memory-limited single-threaded worker processes; a worker that dies (abort, stack
/// overflow, allocation failure, time-out) names the input it was working on, which is recorded as a crash, and the
/// worker is restarted after that input.
fn main() {
    let args: Vec<String> = std::env::args().collect();
    if args.len() >= 4 && args[1] == "worker" {
        run_worker(&args[2..]);
        return;
    }
    if args.len() < 3 {
        eprintln!("usage: pipeline_tool <jobs.json> <outdir>");
        std::process::exit(2);
    }
    let spec: Value = serde_json::from_str(&std::fs::read_to_string(&args[1]).unwrap()).unwrap();
    let outdir = args[2].clone();
    std::fs::create_dir_all(&outdir).unwrap();
    let n_workers = spec.get("threads").and_then(|x| x.as_u64()).unwrap_or(14).max(1) as usize;
    let mem_kb = spec.get("worker_mem_kb").and_then(|x| x.as_u64()).unwrap_or(6_000_000);
    let per_input_s = spec.get("worker_timeout_s").and_then(|x| x.as_u64()).unwrap_or(1500);
    let jobs = spec["jobs"].as_array().unwrap().clone();
    let exe = std::env::current_exe().unwrap();
    let mut slices: Vec<Vec<Value>> = vec![vec![]; n_workers.min(jobs.len().max(1))];
    let nsl = slices.len();
    for (i, j) in jobs.into_iter().enumerate() {
        slices[i % nsl].push(j);
    }
    let crashes = Mutex::new(Vec::<Value>::new());
    std::thread::scope(|sc| {
        for (w, slice) in slices.iter().enumerate() {
            let crashes = &crashes;
            let spec = &spec;
            let exe = &exe;
            let outdir = &outdir;
            sc.spawn(move || {
                let mut remaining: Vec<Value> = slice.clone();
                let mut start_at = serde_json::Map::new();
                for attempt in 0..60 {
                    if remaining.is_empty() {
                        break;
                    }
                    let adir = format!("{outdir}/w{w}/a{attempt}");
                    std::fs::create_dir_all(&adir).unwrap();
                    let mut sp = spec.clone();
                    sp["jobs"] = Value::Array(remaining.clone());
                    sp["threads"] = json!(1);
                    sp["start_at"] = Value::Object(start_at.clone());
                    let sp_path = format!("{adir}/jobs.json");
                    std::fs::write(&sp_path, sp.to_string()).unwrap();
                    let cmd = format!("ulimit -v {mem_kb}; exec {} worker {} {}", exe.display(), sp_path, adir);
                    let _ = per_input_s;
                    let st = std::process::Command::new("bash").arg("-c").arg(&cmd).stdout(std::process::Stdio::null()).status();
                    let code = st.as_ref().ok().and_then(|s| s.code());
                    if st.map(|s| s.success()).unwrap_or(false) {
                        break;
                    }
                    let done: std::collections::BTreeSet<String> =
                        std::fs::read_to_string(format!("{adir}/done.txt")).unwrap_or_default().lines().map(|l| l.to_string()).collect();
                    let inflight: Option<Value> = std::fs::read_to_string(format!("{adir}/inflight.0")).ok().and_then(|t| serde_json::from_str(&t).ok());
                    remaining.retain(|j| !done.contains(j["id"].as_str().unwrap_or("")));
                    match inflight {
                        Some(inp) => {
                            let kind = if code == Some(124) { "timeout" } else { "abort" };
                            crashes.lock().unwrap().push(json!({"kind": kind, "exit": code, "input": inp}));
                            if let (Some(job), Some(k)) = (inp.get("job").and_then(|j| j.as_str()), inp.get("k").and_then(|k| k.as_u64())) {
                                start_at.insert(job.to_string(), json!(k));
                            } else if let Some(id) = inp.get("id").and_then(|i| i.as_str()) {
                                // the unmutated input itself crashed: give the job up
                                remaining.retain(|j| j["id"].as_str() != Some(id));
                            }
                        }
                        None => {
                            // died outside any input (e.g. while loading): drop the first remaining job to make progress
                            if !remaining.is_empty() {
                                let j = remaining.remove(0);
                                crashes.lock().unwrap().push(json!({"kind": "abort_outside_input", "exit": code, "input": {"id": j["id"]}}));
                            }
                        }
                    }
                }
            });
        }
    });
    // merge
    use std::io::Write;
    let mut n_inputs = 0usize;
    let mut n_panic = 0usize;
    for name in ["stages.ndjson", "inputs.ndjson"] {
        let mut out = std::io::BufWriter::new(std::fs::File::create(format!("{outdir}/{name}")).unwrap());
        for w in 0..nsl {
            for attempt in 0..60 {
                if let Ok(text) = std::fs::read_to_string(format!("{outdir}/w{w}/a{attempt}/{name}")) {
                    for line in text.lines() {
                        if serde_json::from_str::<Value>(line).is_ok() {
                            out.write_all(line.as_bytes()).unwrap();
                            out.write_all(b"\n").unwrap();
                            if name == "stages.ndjson" {
                                if line.contains("\"e\":\"reset\"") { n_inputs += 1 }
                                if line.contains("\"e\":\"panic\"") { n_panic += 1 }
                            }
                        }
                    }
                }
            }
        }
        out.flush().unwrap();
    }
    let crashes = crashes.into_inner().unwrap();
    std::fs::write(format!("{outdir}/crashes.json"), serde_json::to_string(&crashes).unwrap()).unwrap();
    for w in 0..nsl {
        let _ = std::fs::remove_dir_all(format!("{outdir}/w{w}"));
    }
    println!("pipeline_tool: inputs={n_inputs} with_panic={n_panic} crashes={}", crashes.len());
}

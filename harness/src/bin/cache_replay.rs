//! C20 — compiling against a crate cache equals compiling from source.
//!
//! usage:
//!   cache_replay gen <input.ndjson> <out-dir>            generate + time the corelib cache blob
//!   cache_replay run <input.ndjson> <output.ndjson> <scratch-dir>
//!
//! `run` executes TLC-generated histories over {gen, use, drop, edit, query} on a database A and
//! compares every query's observation (diagnostics, Sierra, CASM of the dependent) with the
//! observation of the same dependent in a database B where every crate is analysed from source.
//!
//! input lines:
//!   {"k":"settings", gas, backtrace, unsafe_panic, opt, "core_blob": <path>, "casm": bool}
//!   {"k":"lib", "name", "edition", "deps":[], "files":{rel: text}}
//!   {"k":"dep", "id", "name", "edition", "src", "lib": bool}
//!   {"k":"hist", "id", "ops":[{"op":"gen"|"use"|"drop","c":"core"|"lib"} | {"op":"edit"} | {"op":"query"}], "deps":[ids]}
//! output lines:
//!   {"k":"res","hist","queries","ms"} {"k":"diff",...} {"k":"note",...} {"summary":{...}}
#[path = "../cdb_common.rs"]
mod cdb_common;

use std::collections::BTreeMap;
use std::panic::{AssertUnwindSafe, catch_unwind};
use std::path::{Path, PathBuf};
use std::time::Instant;

use cairo_lang_compiler::db::RootDatabase;
use cairo_lang_filesystem::db::{CrateConfiguration, FilesGroup};
use cairo_lang_filesystem::ids::{BlobLongId, CrateId, CrateInput, Directory};
use cairo_lang_filesystem::{override_file_content, set_crate_config};
use cairo_lang_defs::db::DefsGroup;
use cairo_lang_defs::ids::ModuleId;
use cairo_lang_lowering::cache::generate_crate_cache;
use cairo_lang_utils::Intern;
use cdb_common::*;
use cvh::util::{NdjsonWriter, read_ndjson};
use serde_json::{Value, json};

const APP: &str = "app";

struct World {
    settings: Settings,
    core_blob: Option<PathBuf>,
    lib: Option<InlineCrate>,
    scratch: PathBuf,
    want_casm: bool,
}

#[derive(Clone)]
struct Dep {
    id: u64,
    name: String,
    edition: String,
    src: String,
    uses_lib: bool,
}


fn core_id(db: &RootDatabase) -> CrateId<'_> {
    CrateId::core(db)
}

/// A database with corelib + (optionally) the library crate + the dependent crate `app`, all from source.
fn fresh_db(w: &World) -> RootDatabase {
    let mut db = new_db_ex(&w.settings, true, true);
    if let Some(lib) = &w.lib {
        add_lib(&mut db, w, lib);
    }
    db
}

fn add_lib(db: &mut RootDatabase, w: &World, lib: &InlineCrate) {
    let root = write_inline_crate(&w.scratch, lib);
    let id = inline_crate_id(db, &lib.name);
    let cfg = CrateConfiguration { root: Directory::Real(root), settings: inline_settings(lib), cache_file: None };
    set_crate_config!(db, id, Some(cfg));
}

fn app_crate(w: &World, d: &Dep) -> InlineCrate {
    InlineCrate {
        name: APP.into(),
        edition: d.edition.clone(),
        deps: if d.uses_lib { w.lib.iter().map(|l| l.name.clone()).collect() } else { vec![] },
        files: BTreeMap::new(),
    }
}

/// Points crate `app` at dependent `d` (crate settings + content of lib.cairo through a file override).
fn set_dependent(db: &mut RootDatabase, w: &World, d: &Dep) {
    let root = w.scratch.join(APP);
    std::fs::create_dir_all(&root).unwrap();
    let c = app_crate(w, d);
    let id = inline_crate_id(db, APP);
    let cfg = CrateConfiguration { root: Directory::Real(root), settings: inline_settings(&c), cache_file: None };
    set_crate_config!(db, id, Some(cfg));
    let id = inline_crate_id(db, APP);
    let file = db.module_main_file(ModuleId::CrateRoot(id)).expect("main file");
    override_file_content!(db, file, Some(d.src.clone().into()));
}

fn app_input(db: &RootDatabase) -> Vec<CrateInput> {
    vec![inline_crate_id(db, APP).long(db).clone().into_crate_input(db)]
}

fn set_cache(db: &mut RootDatabase, w: &World, c: &str, blob: Option<BlobLongId>) {
    let id = if c == "core" { core_id(db) } else { inline_crate_id(db, &w.lib.as_ref().unwrap().name) };
    let mut cfg = db.crate_config(id).expect("crate config").clone();
    cfg.cache_file = blob.map(|b| b.intern(db));
    set_crate_config!(db, id, Some(cfg));
}

fn observe_app(db: &RootDatabase, w: &World) -> Obs {
    let main = app_input(db);
    catch_unwind(AssertUnwindSafe(|| observe(db, &main, Entry::Plain, false, w.want_casm)))
        .unwrap_or_else(|e| vec![("panic".to_string(), panic_text(e))])
}

fn corrupt_if_selected(obs: &mut Obs, dep: u64) {
    if std::env::var("CDB_CORRUPT").ok().and_then(|s| s.parse::<u64>().ok()) == Some(dep) {
        if let Some((_, v)) = obs.iter_mut().find(|(k, _)| k == "diagnostics") {
            v.push('!');
        }
    }
}

fn gen_blob(db: &RootDatabase, w: &World, c: &str) -> Result<Vec<u8>, String> {
    let id = if c == "core" { core_id(db) } else { inline_crate_id(db, &w.lib.as_ref().unwrap().name) };
    match catch_unwind(AssertUnwindSafe(|| generate_crate_cache(db, id))) {
        Ok(Ok(b)) => Ok(b),
        Ok(Err(e)) => Err(format!("generate_crate_cache({c}): {e}")),
        Err(e) => Err(format!("generate_crate_cache({c}) panicked: {}", panic_text(e))),
    }
}

fn read_world(lines: &[Value], scratch: &Path) -> (World, Vec<Dep>, Vec<Value>) {
    let mut w = World {
        settings: Settings::from_json(&json!({})),
        core_blob: None,
        lib: None,
        scratch: scratch.to_path_buf(),
        want_casm: true,
    };
    let mut deps = vec![];
    let mut hists = vec![];
    for l in lines {
        match l["k"].as_str().unwrap_or("") {
            "settings" => {
                w.settings = Settings::from_json(l);
                w.core_blob = l.get("core_blob").and_then(|x| x.as_str()).map(PathBuf::from);
                w.want_casm = l.get("casm").and_then(|x| x.as_bool()).unwrap_or(true);
            }
            "lib" => {
                let p = Project::from_json(&json!({"name":"_", "crates":[l]}));
                if let ProjectKind::Inline(mut cs) = p.kind {
                    w.lib = cs.pop();
                }
            }
            "dep" => deps.push(Dep {
                id: l["id"].as_u64().unwrap(),
                name: l["name"].as_str().unwrap_or("").to_string(),
                edition: l.get("edition").and_then(|x| x.as_str()).unwrap_or("2024_07").to_string(),
                src: l["src"].as_str().unwrap().to_string(),
                uses_lib: l.get("lib").and_then(|x| x.as_bool()).unwrap_or(false),
            }),
            "hist" => hists.push(l.clone()),
            _ => {}
        }
    }
    (w, deps, hists)
}

fn cmd_gen(args: &[String]) {
    let lines = read_ndjson(&args[2]);
    let out = Path::new(&args[3]);
    std::fs::create_dir_all(out).unwrap();
    let (w, _, _) = read_world(&lines, &out.join("scratch"));
    let t0 = Instant::now();
    let db = fresh_db(&w);
    let blob = gen_blob(&db, &w, "core").unwrap_or_else(|e| {
        eprintln!("{e}");
        std::process::exit(3)
    });
    let ms = t0.elapsed().as_millis();
    let p = out.join(format!("core_{}.blob", w.settings.flags_key()));
    std::fs::write(&p, &blob).unwrap();
    // determinism of the blob itself is not part of the property; recorded for information
    println!("{}", json!({"core_blob": p, "bytes": blob.len(), "gen_ms": ms as u64, "hash": h64(&format!("{blob:?}"))}));
}

fn cmd_run(args: &[String]) {
    install_quiet_panic_hook();
    let lines = read_ndjson(&args[2]);
    let mut out = NdjsonWriter::create(&args[3]);
    let scratch = PathBuf::from(&args[4]);
    std::fs::create_dir_all(&scratch).unwrap();
    let (w, deps, hists) = read_world(&lines, &scratch);
    let dep_by_id: BTreeMap<u64, Dep> = deps.iter().map(|d| (d.id, d.clone())).collect();
    let dump = std::env::var("CDB_DUMP").is_ok();
    // B: everything from source, long lived; reference observation per dependent
    let mut db_b = fresh_db(&w);
    if w.lib.is_some() {
        // the library crate itself must be free of errors, otherwise nothing below means anything
        let lib_in = vec![inline_crate_id(&db_b, &w.lib.as_ref().unwrap().name).long(&db_b).clone().into_crate_input(&db_b)];
        let ids = CrateInput::into_crate_ids(&db_b, lib_in);
        let d = cairo_lang_compiler::diagnostics::get_diagnostics_as_string(&db_b, Some(ids));
        if d.contains("error") {
            out.write(&json!({"k":"note","what":"lib_diagnostics","detail":d.chars().take(2000).collect::<String>()}));
        }
    }
    let mut reference: BTreeMap<u64, Obs> = BTreeMap::new();
    let (mut n_hist, mut n_query, mut n_obs, mut n_diff, mut n_fresh_confirmed, mut n_incr_only, mut n_generr) =
        (0u64, 0u64, 0u64, 0u64, 0u64, 0u64, 0u64);
    let mut ok_compiled = 0u64;
    let mut compiling_ids: Vec<u64> = vec![];
    let mut covered: std::collections::BTreeSet<(u64, String)> = Default::default();
    let t_all = Instant::now();
    let (mut ms_ref, mut ms_a, mut ms_gen) = (0u128, 0u128, 0u128);
    for h in &hists {
        let t0 = Instant::now();
        n_hist += 1;
        // "deps": [[ids of block 0], [ids of block 1], ...]; `edit` moves to the next block,
        // `query` observes every dependent of the current block (each one is an edit of crate `app`).
        let blocks: Vec<Vec<u64>> = h["deps"]
            .as_array()
            .map(|a| a.iter().map(|b| b.as_array().unwrap().iter().map(|x| x.as_u64().unwrap()).collect()).collect())
            .unwrap_or_default();
        if blocks.is_empty() || blocks.iter().any(|b| b.is_empty()) {
            continue;
        }
        let in_db_core = h.get("gen_core_in_db").and_then(|x| x.as_bool()).unwrap_or(false);
        let mut cur = 0usize;
        let mut db_a = fresh_db(&w);
        set_dependent(&mut db_a, &w, &dep_by_id[&blocks[0][0]]);
        let mut blobs: BTreeMap<String, BlobLongId> = BTreeMap::new();
        let mut mode: BTreeMap<String, bool> = BTreeMap::new();
        let mut queries = 0u64;
        let mut aborted = false;
        for op in h["ops"].as_array().unwrap() {
            let c = op.get("c").and_then(|x| x.as_str()).unwrap_or("");
            match op["op"].as_str().unwrap() {
                "gen" => {
                    if c == "core" && w.core_blob.is_some() && !in_db_core {
                        // the core library has no dependencies and fixed contents: its blob is generated
                        // once per settings point (by `cache_replay gen`) and shared
                        blobs.insert(c.into(), BlobLongId::OnDisk(w.core_blob.clone().unwrap()));
                    } else {
                        let t = Instant::now();
                        match gen_blob(&db_a, &w, c) {
                            Ok(b) => {
                                blobs.insert(c.into(), BlobLongId::Virtual(b));
                            }
                            Err(e) => {
                                n_generr += 1;
                                out.write(&json!({"k":"note","hist":h["id"],"what":"generr","detail":e}));
                                aborted = true;
                                break;
                            }
                        }
                        ms_gen += t.elapsed().as_millis();
                    }
                }
                "use" => {
                    let b = blobs.get(c).cloned().expect("use before gen (illegal history)");
                    set_cache(&mut db_a, &w, c, Some(b));
                    mode.insert(c.into(), true);
                }
                "drop" => {
                    set_cache(&mut db_a, &w, c, None);
                    mode.insert(c.into(), false);
                }
                "edit" => {
                    cur = (cur + 1) % blocks.len();
                }
                "query" => {
                    queries += 1;
                    n_query += 1;
                    let cached: Vec<String> = mode.iter().filter(|(_, v)| **v).map(|(k, _)| k.clone()).collect();
                    for id in &blocks[cur] {
                        let d = &dep_by_id[id];
                        if !reference.contains_key(&d.id) {
                            let t = Instant::now();
                            set_dependent(&mut db_b, &w, d);
                            let o = observe_app(&db_b, &w);
                            if o.iter().any(|(k, _)| k == "sierra_canon") {
                                ok_compiled += 1;
                                compiling_ids.push(d.id);
                            }
                            reference.insert(d.id, o);
                            ms_ref += t.elapsed().as_millis();
                        }
                        let t = Instant::now();
                        set_dependent(&mut db_a, &w, d);
                        let mut obs_a = observe_app(&db_a, &w);
                        ms_a += t.elapsed().as_millis();
                        // self-test of the comparison (CDB_CORRUPT=<dependent id>): the corruption is applied to
                        // every observation of that dependent made with a cache, so it survives the fresh re-check
                        if !cached.is_empty() {
                            corrupt_if_selected(&mut obs_a, d.id);
                        }
                        n_obs += 1;
                        covered.insert((d.id, cached.join("+")));
                        if dump {
                            for (k, v) in &obs_a {
                                std::fs::write(scratch.join(format!("dump_a_{}_{}_{}.txt", h["id"], d.id, k)), v).unwrap();
                            }
                            for (k, v) in &reference[&d.id] {
                                std::fs::write(scratch.join(format!("dump_b_{}_{}.txt", d.id, k)), v).unwrap();
                            }
                        }
                        let diffs = diff_obs(&reference[&d.id], &obs_a);
                        if !diffs.is_empty() {
                            n_diff += 1;
                            // Confirm on a fresh pair of databases that differ only in cache_file, so
                            // that an incremental-recomputation artefact of the long-lived databases
                            // (C13's subject) is never reported as a cache difference.
                            let mut fa = fresh_db(&w);
                            set_dependent(&mut fa, &w, d);
                            for (c, on) in &mode {
                                if *on {
                                    set_cache(&mut fa, &w, c, Some(blobs[c].clone()));
                                }
                            }
                            let mut oa = observe_app(&fa, &w);
                            corrupt_if_selected(&mut oa, d.id);
                            let mut fb = fresh_db(&w);
                            set_dependent(&mut fb, &w, d);
                            let ob = observe_app(&fb, &w);
                            let fd = diff_obs(&ob, &oa);
                            if fd.is_empty() {
                                n_incr_only += 1;
                                out.write(&json!({"k":"note","hist":h["id"],"dep":d.id,"what":"incremental_only_difference",
                                                  "cached":cached,"parts":diffs}));
                            } else {
                                n_fresh_confirmed += 1;
                                out.write(&json!({"k":"diff","hist":h,"dep":d.id,"dep_name":d.name,"cached":cached,
                                                  "parts":fd,"edition":d.edition,"uses_lib":d.uses_lib,"src":d.src}));
                            }
                        }
                    }
                }
                other => panic!("unknown op {other}"),
            }
        }
        out.write(&json!({"k":"res","hist":h["id"],"queries":queries,"ms":t0.elapsed().as_millis() as u64,"aborted":aborted}));
    }
    let cov: Vec<Value> = covered.iter().map(|(d, c)| json!([d, c])).collect();
    out.write(&json!({"summary":{"histories":n_hist,"queries":n_query,"observations":n_obs,"dependents":reference.len(),
        "dependents_compiling":ok_compiled,"diffs_seen":n_diff,
        "diffs_confirmed":n_fresh_confirmed,"incremental_only":n_incr_only,"gen_errors":n_generr,
        "ms_total":t_all.elapsed().as_millis() as u64,"ms_ref":ms_ref as u64,"ms_a":ms_a as u64,"ms_gen":ms_gen as u64},
        "covered":cov,"compiling":compiling_ids}));
    out.finish();
}

fn main() {
    let args: Vec<String> = std::env::args().collect();
    match args.get(1).map(|s| s.as_str()) {
        Some("gen") if args.len() >= 4 => cmd_gen(&args),
        Some("run") if args.len() >= 5 => cmd_run(&args),
        _ => {
            eprintln!("usage: cache_replay gen <input> <out-dir> | run <input> <output> <scratch>");
            std::process::exit(2);
        }
    }
}

//! cvh — conformance harness binding the TLA+ specifications in /verif/specs to the real crates in /repo.
pub mod util;

//! Shared code of the C18 (c18_codec) and C19 (c19_class) harness bins: database construction with the
//! corelib of the repository under test, corpus enumeration, an independent isomorphism check of two
//! Sierra programs and the abstract attributes (id numbering / debug-name coverage) the SierraCodec
//! specification predicts.
#![allow(dead_code)]

use std::collections::HashMap;
use std::path::{Path, PathBuf};

use cairo_lang_compiler::db::RootDatabase;
use cairo_lang_compiler::diagnostics::DiagnosticsReporter;
use cairo_lang_compiler::project::setup_project;
use cairo_lang_filesystem::db::init_dev_corelib;
use cairo_lang_filesystem::ids::{CrateId, CrateInput};
use cairo_lang_sierra::ids::{ConcreteLibfuncId, ConcreteTypeId, FunctionId, UserTypeId, VarId};
use cairo_lang_sierra::program::{GenericArg, Program, Statement};
use cairo_lang_starknet::starknet_plugin_suite;
use num_bigint::BigUint;

pub fn repo() -> PathBuf {
    PathBuf::from(cvh::util::repo_root())
}

/// A fresh database whose corelib is `<repo>/corelib/src` (passed explicitly, never detected).
pub fn new_db(starknet: bool) -> RootDatabase {
    let mut b = RootDatabase::builder();
    if starknet {
        b.with_default_plugin_suite(starknet_plugin_suite());
    }
    let mut db = b.build().expect("db build");
    init_dev_corelib(&mut db, cvh::util::corelib_src());
    db
}

/// Sets up the project at `path` (directory with cairo_project.toml or a single .cairo file) and checks
/// that it has no error diagnostics.  Returns the main crate inputs.
pub fn setup_checked(db: &mut RootDatabase, path: &Path) -> Result<Vec<CrateInput>, String> {
    let inputs = setup_project(db, path).map_err(|e| format!("setup_project: {e}"))?;
    let mut msgs = String::new();
    let bad = {
        let mut rep =
            DiagnosticsReporter::callback(|d| msgs.push_str(&d.to_string())).with_crates(&inputs).allow_warnings();
        rep.check(db)
    };
    if bad {
        return Err(format!("diagnostics: {}", msgs.split("\n\n").filter(|m| m.trim_start().starts_with("error")).collect::<Vec<_>>().join(" | ").chars().take(3000).collect::<String>()));
    }
    Ok(inputs)
}

pub fn crate_ids<'db>(db: &'db RootDatabase, inputs: &[CrateInput]) -> Vec<CrateId<'db>> {
    CrateInput::into_crate_ids(db, inputs.to_vec())
}

pub fn list_files(dir: &Path, ext: &str) -> Vec<PathBuf> {
    let mut v: Vec<PathBuf> = match std::fs::read_dir(dir) {
        Ok(rd) => rd
            .filter_map(|e| e.ok().map(|e| e.path()))
            .filter(|p| p.is_file() && p.to_string_lossy().ends_with(ext))
            .collect(),
        Err(_) => vec![],
    };
    v.sort();
    v
}

// ------------------------------------------------------------------------------------------------
// Independent isomorphism check ("identical declarations, statements and functions up to a consistent
// renaming of ids").  Does not use CanonicalReplacer or PartialEq of the ids.

#[derive(Default)]
pub struct Iso {
    ty: (HashMap<u64, u64>, HashMap<u64, u64>),
    lf: (HashMap<u64, u64>, HashMap<u64, u64>),
    func: (HashMap<u64, u64>, HashMap<u64, u64>),
    var: (HashMap<u64, u64>, HashMap<u64, u64>),
    ut: (HashMap<BigUint, BigUint>, HashMap<BigUint, BigUint>),
}

fn bind<K: std::hash::Hash + Eq + Clone>(m: &mut (HashMap<K, K>, HashMap<K, K>), a: &K, b: &K) -> bool {
    match (m.0.get(a), m.1.get(b)) {
        (None, None) => {
            m.0.insert(a.clone(), b.clone());
            m.1.insert(b.clone(), a.clone());
            true
        }
        (Some(x), Some(y)) => x == b && y == a,
        _ => false,
    }
}

impl Iso {
    fn ty(&mut self, a: &ConcreteTypeId, b: &ConcreteTypeId) -> bool {
        bind(&mut self.ty, &a.id, &b.id)
    }
    fn lf(&mut self, a: &ConcreteLibfuncId, b: &ConcreteLibfuncId) -> bool {
        bind(&mut self.lf, &a.id, &b.id)
    }
    fn func(&mut self, a: &FunctionId, b: &FunctionId) -> bool {
        bind(&mut self.func, &a.id, &b.id)
    }
    fn var(&mut self, a: &VarId, b: &VarId) -> bool {
        bind(&mut self.var, &a.id, &b.id)
    }
    fn ut(&mut self, a: &UserTypeId, b: &UserTypeId) -> bool {
        bind(&mut self.ut, &a.id, &b.id)
    }
    fn args(&mut self, a: &[GenericArg], b: &[GenericArg]) -> Result<(), String> {
        if a.len() != b.len() {
            return Err(format!("generic arg count {} vs {}", a.len(), b.len()));
        }
        for (i, (x, y)) in a.iter().zip(b).enumerate() {
            let ok = match (x, y) {
                (GenericArg::UserType(p), GenericArg::UserType(q)) => self.ut(p, q),
                (GenericArg::Type(p), GenericArg::Type(q)) => self.ty(p, q),
                (GenericArg::Value(p), GenericArg::Value(q)) => p == q,
                (GenericArg::UserFunc(p), GenericArg::UserFunc(q)) => self.func(p, q),
                (GenericArg::Libfunc(p), GenericArg::Libfunc(q)) => self.lf(p, q),
                _ => false,
            };
            if !ok {
                return Err(format!("generic arg {i}: {x:?} vs {y:?}"));
            }
        }
        Ok(())
    }
}

/// Ok(()) iff `a` and `b` are the same program up to a consistent bijective renaming of ids.
pub fn isomorphic(a: &Program, b: &Program) -> Result<(), String> {
    let mut m = Iso::default();
    if a.type_declarations.len() != b.type_declarations.len() {
        return Err(format!("type declaration count {} vs {}", a.type_declarations.len(), b.type_declarations.len()));
    }
    for (i, (x, y)) in a.type_declarations.iter().zip(&b.type_declarations).enumerate() {
        if !m.ty(&x.id, &y.id) {
            return Err(format!("type decl {i}: id binding {:?} vs {:?}", x.id, y.id));
        }
        if x.long_id.generic_id.0 != y.long_id.generic_id.0 {
            return Err(format!("type decl {i}: generic id {} vs {}", x.long_id.generic_id.0, y.long_id.generic_id.0));
        }
        if x.declared_type_info != y.declared_type_info {
            return Err(format!("type decl {i}: declared type info {:?} vs {:?}", x.declared_type_info, y.declared_type_info));
        }
        m.args(&x.long_id.generic_args, &y.long_id.generic_args).map_err(|e| format!("type decl {i}: {e}"))?;
    }
    if a.libfunc_declarations.len() != b.libfunc_declarations.len() {
        return Err("libfunc declaration count".into());
    }
    for (i, (x, y)) in a.libfunc_declarations.iter().zip(&b.libfunc_declarations).enumerate() {
        if !m.lf(&x.id, &y.id) {
            return Err(format!("libfunc decl {i}: id binding {:?} vs {:?}", x.id, y.id));
        }
        if x.long_id.generic_id.0 != y.long_id.generic_id.0 {
            return Err(format!("libfunc decl {i}: generic id {} vs {}", x.long_id.generic_id.0, y.long_id.generic_id.0));
        }
        m.args(&x.long_id.generic_args, &y.long_id.generic_args).map_err(|e| format!("libfunc decl {i}: {e}"))?;
    }
    if a.statements.len() != b.statements.len() {
        return Err(format!("statement count {} vs {}", a.statements.len(), b.statements.len()));
    }
    for (i, (x, y)) in a.statements.iter().zip(&b.statements).enumerate() {
        match (x, y) {
            (Statement::Return(p), Statement::Return(q)) => {
                if p.len() != q.len() || !p.iter().zip(q).all(|(u, v)| m.var(u, v)) {
                    return Err(format!("statement {i}: return vars"));
                }
            }
            (Statement::Invocation(p), Statement::Invocation(q)) => {
                if !m.lf(&p.libfunc_id, &q.libfunc_id) {
                    return Err(format!("statement {i}: libfunc {:?} vs {:?}", p.libfunc_id, q.libfunc_id));
                }
                if p.args.len() != q.args.len() || !p.args.iter().zip(&q.args).all(|(u, v)| m.var(u, v)) {
                    return Err(format!("statement {i}: args"));
                }
                if p.branches.len() != q.branches.len() {
                    return Err(format!("statement {i}: branch count"));
                }
                for (k, (bp, bq)) in p.branches.iter().zip(&q.branches).enumerate() {
                    if bp.target != bq.target {
                        return Err(format!("statement {i} branch {k}: target {:?} vs {:?}", bp.target, bq.target));
                    }
                    if bp.results.len() != bq.results.len() || !bp.results.iter().zip(&bq.results).all(|(u, v)| m.var(u, v)) {
                        return Err(format!("statement {i} branch {k}: results"));
                    }
                }
            }
            _ => return Err(format!("statement {i}: kind")),
        }
    }
    if a.funcs.len() != b.funcs.len() {
        return Err("function count".into());
    }
    for (i, (x, y)) in a.funcs.iter().zip(&b.funcs).enumerate() {
        if !m.func(&x.id, &y.id) {
            return Err(format!("function {i}: id binding {:?} vs {:?}", x.id, y.id));
        }
        if x.entry_point != y.entry_point {
            return Err(format!("function {i}: entry point {} vs {}", x.entry_point.0, y.entry_point.0));
        }
        let same_tys = |m: &mut Iso, p: &[ConcreteTypeId], q: &[ConcreteTypeId]| {
            p.len() == q.len() && p.iter().zip(q).all(|(u, v)| m.ty(u, v))
        };
        if !same_tys(&mut m, &x.signature.param_types, &y.signature.param_types)
            || !same_tys(&mut m, &x.signature.ret_types, &y.signature.ret_types)
        {
            return Err(format!("function {i}: signature"));
        }
        if x.params.len() != y.params.len()
            || !x.params.iter().zip(&y.params).all(|(u, v)| m.var(&u.id, &v.id) && m.ty(&u.ty, &v.ty))
        {
            return Err(format!("function {i}: params"));
        }
    }
    Ok(())
}

// ------------------------------------------------------------------------------------------------
// Abstract attributes of an in-memory program (what SierraCodec.tla predicts after every step).

pub fn fnv1a(s: &str) -> u64 {
    let mut h: u64 = 0xcbf29ce484222325;
    for b in s.as_bytes() {
        h ^= *b as u64;
        h = h.wrapping_mul(0x100000001b3);
    }
    h
}

#[derive(Default, Debug, Clone)]
pub struct NameStats {
    pub named: [usize; 4], // ty, lf, fn, ut occurrences carrying a debug name
    pub total: [usize; 4],
    pub hashed: [usize; 3], // named ty/lf/fn occurrences whose id is the fnv hash of the name
}

fn visit_ids(p: &Program, mut f: impl FnMut(usize, Option<&str>, Option<u64>)) {
    fn args(a: &[GenericArg], f: &mut impl FnMut(usize, Option<&str>, Option<u64>)) {
        for g in a {
            match g {
                GenericArg::Type(t) => f(0, t.debug_name.as_deref(), Some(t.id)),
                GenericArg::Libfunc(t) => f(1, t.debug_name.as_deref(), Some(t.id)),
                GenericArg::UserFunc(t) => f(2, t.debug_name.as_deref(), Some(t.id)),
                GenericArg::UserType(t) => f(3, t.debug_name.as_deref(), None),
                GenericArg::Value(_) => {}
            }
        }
    }
    for d in &p.type_declarations {
        f(0, d.id.debug_name.as_deref(), Some(d.id.id));
        args(&d.long_id.generic_args, &mut f);
    }
    for d in &p.libfunc_declarations {
        f(1, d.id.debug_name.as_deref(), Some(d.id.id));
        args(&d.long_id.generic_args, &mut f);
    }
    for s in &p.statements {
        if let Statement::Invocation(i) = s {
            f(1, i.libfunc_id.debug_name.as_deref(), Some(i.libfunc_id.id));
        }
    }
    for func in &p.funcs {
        f(2, func.id.debug_name.as_deref(), Some(func.id.id));
        for t in func.signature.param_types.iter().chain(&func.signature.ret_types) {
            f(0, t.debug_name.as_deref(), Some(t.id));
        }
        for prm in &func.params {
            f(0, prm.ty.debug_name.as_deref(), Some(prm.ty.id));
        }
    }
}

pub fn name_stats(p: &Program) -> NameStats {
    let mut s = NameStats::default();
    visit_ids(p, |k, name, id| {
        s.total[k] += 1;
        if let Some(n) = name {
            s.named[k] += 1;
            if k < 3 && id == Some(fnv1a(n)) {
                s.hashed[k] += 1;
            }
        }
    });
    s
}

/// "none" | "full" | "nout" (all type/libfunc/function occurrences named, no user type named) | "mixed"
pub fn names_kind(p: &Program) -> &'static str {
    let s = name_stats(p);
    let core_named: usize = s.named[..3].iter().sum();
    let core_total: usize = s.total[..3].iter().sum();
    if core_named == 0 && s.named[3] == 0 {
        "none"
    } else if core_named == core_total && s.named[3] == s.total[3] {
        "full"
    } else if core_named == core_total && s.named[3] == 0 {
        "nout"
    } else {
        "mixed"
    }
}

/// Declarations carry the ids 0..n-1 in declaration order (types, libfuncs, functions).
pub fn is_canonical(p: &Program) -> bool {
    p.type_declarations.iter().enumerate().all(|(i, d)| d.id.id == i as u64)
        && p.libfunc_declarations.iter().enumerate().all(|(i, d)| d.id.id == i as u64)
        && p.funcs.iter().enumerate().all(|(i, d)| d.id.id == i as u64)
}

/// Every named type/libfunc/function id equals the hash of its name (what the text parser produces).
pub fn is_hashed(p: &Program) -> bool {
    let s = name_stats(p);
    (0..3).all(|k| s.named[k] == s.hashed[k])
}

/// Removes every debug name (the "stripping" of the property statement).
pub fn strip_names(p: &Program) -> Program {
    let mut p = p.clone();
    fn args(a: &mut [GenericArg]) {
        for g in a {
            match g {
                GenericArg::Type(t) => t.debug_name = None,
                GenericArg::Libfunc(t) => t.debug_name = None,
                GenericArg::UserFunc(t) => t.debug_name = None,
                GenericArg::UserType(t) => t.debug_name = None,
                GenericArg::Value(_) => {}
            }
        }
    }
    for d in &mut p.type_declarations {
        d.id.debug_name = None;
        args(&mut d.long_id.generic_args);
    }
    for d in &mut p.libfunc_declarations {
        d.id.debug_name = None;
        args(&mut d.long_id.generic_args);
    }
    for s in &mut p.statements {
        match s {
            Statement::Invocation(i) => {
                i.libfunc_id.debug_name = None;
                for v in i.args.iter_mut().chain(i.branches.iter_mut().flat_map(|b| b.results.iter_mut())) {
                    v.debug_name = None;
                }
            }
            Statement::Return(vs) => {
                for v in vs {
                    v.debug_name = None;
                }
            }
        }
    }
    for f in &mut p.funcs {
        f.id.debug_name = None;
        for t in f.signature.param_types.iter_mut().chain(f.signature.ret_types.iter_mut()) {
            t.debug_name = None;
        }
        for prm in &mut f.params {
            prm.ty.debug_name = None;
            prm.id.debug_name = None;
        }
    }
    p
}

/// A digest of the exact in-memory value (ids *and* debug names), used to memoise CASM compilation.
pub fn exact_digest(p: &Program) -> u64 {
    fnv1a(&format!("{p:?}"))
}

pub fn catch<T>(f: impl FnOnce() -> T) -> Result<T, String> {
    std::panic::catch_unwind(std::panic::AssertUnwindSafe(f)).map_err(|e| {
        if let Some(s) = e.downcast_ref::<String>() {
            format!("panic: {s}")
        } else if let Some(s) = e.downcast_ref::<&str>() {
            format!("panic: {s}")
        } else {
            "panic".to_string()
        }
    })
}

/// Structural well-formedness (independent of the libfunc/type semantics): declaration ids are unique per
/// kind, every referenced type / libfunc / function id is declared, branch targets and entry points are
/// statement indices.  Deliberately invalid test inputs of the repository fail this and are no subjects of C18.
pub fn well_formed(p: &Program) -> Result<(), String> {
    use std::collections::HashSet;
    let mut tys = HashSet::new();
    let mut lfs = HashSet::new();
    let mut fns = HashSet::new();
    for d in &p.type_declarations {
        if !tys.insert(d.id.id) {
            return Err(format!("type id {} declared twice", d.id));
        }
    }
    for d in &p.libfunc_declarations {
        if !lfs.insert(d.id.id) {
            return Err(format!("libfunc id {} declared twice", d.id));
        }
    }
    for f in &p.funcs {
        if !fns.insert(f.id.id) {
            return Err(format!("function id {} declared twice", f.id));
        }
    }
    let mut bad: Option<String> = None;
    visit_ids(p, |k, _name, id| {
        let ok = match (k, id) {
            (0, Some(i)) => tys.contains(&i),
            (1, Some(i)) => lfs.contains(&i),
            (2, Some(i)) => fns.contains(&i),
            _ => true,
        };
        if !ok && bad.is_none() {
            bad = Some(format!("undeclared {} id {:?}", ["type", "libfunc", "function"][k], id));
        }
    });
    if let Some(b) = bad {
        return Err(b);
    }
    let n = p.statements.len();
    for (i, s) in p.statements.iter().enumerate() {
        if let Statement::Invocation(inv) = s {
            for b in &inv.branches {
                match b.target {
                    cairo_lang_sierra::program::BranchTarget::Statement(t) if t.0 >= n => return Err(format!("statement {i}: target {} out of range", t.0)),
                    cairo_lang_sierra::program::BranchTarget::Fallthrough if i + 1 >= n => return Err(format!("statement {i}: falls through the end")),
                    _ => {}
                }
            }
        }
    }
    for f in &p.funcs {
        if f.entry_point.0 >= n {
            return Err(format!("function {}: entry point {} out of range", f.id, f.entry_point.0));
        }
        if f.signature.param_types.len() != f.params.len() || f.signature.param_types.iter().zip(&f.params).any(|(t, q)| t.id != q.ty.id) {
            return Err(format!("function {}: signature and parameters disagree", f.id));
        }
    }
    Ok(())
}

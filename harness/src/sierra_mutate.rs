//! Single-point mutation operators on Sierra programs (DESIGN 3.12): the input space of C14,
//! and the source of ill-formed-but-plausible programs for C15 / C02.
#![allow(dead_code)]
use cairo_lang_sierra::ids::{ConcreteLibfuncId, ConcreteTypeId, GenericLibfuncId, GenericTypeId, UserTypeId, VarId};
use cairo_lang_sierra::program::{
    BranchInfo, BranchTarget, ConcreteLibfuncLongId, ConcreteTypeLongId, GenericArg, Invocation, LibfuncDeclaration,
    Program, Statement, StatementIdx, TypeDeclaration,
};
use cvh::util::Rng;
use serde_json::{Value, json};

#[derive(Clone, Debug)]
pub enum Plan {
    DeleteStmt(usize),
    DupStmt(usize),
    SwapStmt(usize),
    SwapArg { stmt: usize, k: usize, var: u64 },
    SwapRes { stmt: usize, b: usize, k: usize, var: u64 },
    DropArg { stmt: usize, k: usize },
    DupArg { stmt: usize, k: usize },
    SwapLibfunc { stmt: usize, decl: usize },
    Retarget { stmt: usize, b: usize, target: usize },
    MakeFallthrough { stmt: usize, b: usize },
    SwapBranches { stmt: usize },
    EditLibfuncArgType { decl: usize, k: usize, ty: usize },
    EditTypeArgType { decl: usize, k: usize, ty: usize },
    EditLibfuncArgValue { decl: usize, k: usize, delta: i64 },
    MoveEntry { func: usize, stmt: usize },
    SwapFuncParamType { func: usize, k: usize, ty: usize },
    SwapFuncRetType { func: usize, k: usize, ty: usize },
    DropFuncRet { func: usize },
    /// One more declared return type than values returned (the caller would read a value nobody produced).
    AddFuncRet { func: usize, ty: usize },
    SwapTypeDecls(usize),
    SwapLibfuncDecls(usize),
    StmtToReturn(usize),
    /// At a merge point `at` (a jump target whose predecessor `at - 1` falls through into it): after
    /// statement `at - 1` drop its result and re-introduce the same variable id as a zero-sized unit
    /// value, so that the two merging paths disagree on the variable's type.
    MergeRetype { at: usize, res: usize },
    /// Set a value generic argument of a type declaration (BoundedInt bounds, Const values, …) to a
    /// boundary value (decimal string).
    SetTypeArgValue { decl: usize, k: usize, value: String },
    SetTypeArgValues { decl: usize, ks: Vec<usize>, values: Vec<String> },
    /// Same for a libfunc declaration.
    SetLibfuncArgValue { decl: usize, k: usize, value: String },
}

impl Plan {
    pub fn to_json(&self) -> Value {
        json!(format!("{self:?}"))
    }
}

fn shift_targets(p: &mut Program, f: impl Fn(usize) -> usize) {
    for s in p.statements.iter_mut() {
        if let Statement::Invocation(inv) = s {
            for b in inv.branches.iter_mut() {
                if let BranchTarget::Statement(StatementIdx(t)) = &mut b.target {
                    *t = f(*t);
                }
            }
        }
    }
    for func in p.funcs.iter_mut() {
        func.entry_point = StatementIdx(f(func.entry_point.0));
    }
}

pub fn apply(orig: &Program, plan: &Plan) -> Option<Program> {
    let mut p = orig.clone();
    let n = p.statements.len();
    match plan {
        Plan::DeleteStmt(i) => {
            if *i >= n {
                return None;
            }
            p.statements.remove(*i);
            let i = *i;
            shift_targets(&mut p, |t| if t > i { t - 1 } else { t });
        }
        Plan::DupStmt(i) => {
            if *i >= n {
                return None;
            }
            let s = p.statements[*i].clone();
            p.statements.insert(*i + 1, s);
            let i = *i;
            shift_targets(&mut p, |t| if t > i { t + 1 } else { t });
        }
        Plan::SwapStmt(i) => {
            if *i + 1 >= n {
                return None;
            }
            p.statements.swap(*i, *i + 1);
        }
        Plan::SwapArg { stmt, k, var } => match p.statements.get_mut(*stmt)? {
            Statement::Invocation(inv) => *inv.args.get_mut(*k)? = VarId::new(*var),
            Statement::Return(vars) => *vars.get_mut(*k)? = VarId::new(*var),
        },
        Plan::DropArg { stmt, k } => match p.statements.get_mut(*stmt)? {
            Statement::Invocation(inv) => {
                if *k >= inv.args.len() {
                    return None;
                }
                inv.args.remove(*k);
            }
            Statement::Return(vars) => {
                if *k >= vars.len() {
                    return None;
                }
                vars.remove(*k);
            }
        },
        Plan::DupArg { stmt, k } => match p.statements.get_mut(*stmt)? {
            Statement::Invocation(inv) => {
                let v = inv.args.get(*k)?.clone();
                inv.args.push(v);
            }
            Statement::Return(vars) => {
                let v = vars.get(*k)?.clone();
                vars.push(v);
            }
        },
        Plan::SwapRes { stmt, b, k, var } => match p.statements.get_mut(*stmt)? {
            Statement::Invocation(inv) => *inv.branches.get_mut(*b)?.results.get_mut(*k)? = VarId::new(*var),
            _ => return None,
        },
        Plan::SwapLibfunc { stmt, decl } => {
            let id = p.libfunc_declarations.get(*decl)?.id.clone();
            match p.statements.get_mut(*stmt)? {
                Statement::Invocation(inv) => inv.libfunc_id = id,
                _ => return None,
            }
        }
        Plan::Retarget { stmt, b, target } => match p.statements.get_mut(*stmt)? {
            Statement::Invocation(inv) => inv.branches.get_mut(*b)?.target = BranchTarget::Statement(StatementIdx(*target)),
            _ => return None,
        },
        Plan::MakeFallthrough { stmt, b } => match p.statements.get_mut(*stmt)? {
            Statement::Invocation(inv) => inv.branches.get_mut(*b)?.target = BranchTarget::Fallthrough,
            _ => return None,
        },
        Plan::SwapBranches { stmt } => match p.statements.get_mut(*stmt)? {
            Statement::Invocation(inv) => {
                if inv.branches.len() < 2 {
                    return None;
                }
                let (a, b) = (inv.branches[0].results.clone(), inv.branches[1].results.clone());
                inv.branches[0].results = b;
                inv.branches[1].results = a;
            }
            _ => return None,
        },
        Plan::EditLibfuncArgType { decl, k, ty } => {
            let tid = p.type_declarations.get(*ty)?.id.clone();
            let d = p.libfunc_declarations.get_mut(*decl)?;
            match d.long_id.generic_args.get_mut(*k)? {
                GenericArg::Type(t) => *t = tid,
                _ => return None,
            }
        }
        Plan::EditTypeArgType { decl, k, ty } => {
            let tid = p.type_declarations.get(*ty)?.id.clone();
            let d = p.type_declarations.get_mut(*decl)?;
            match d.long_id.generic_args.get_mut(*k)? {
                GenericArg::Type(t) => *t = tid,
                _ => return None,
            }
            d.declared_type_info = None;
        }
        Plan::EditLibfuncArgValue { decl, k, delta } => {
            let d = p.libfunc_declarations.get_mut(*decl)?;
            match d.long_id.generic_args.get_mut(*k)? {
                GenericArg::Value(v) => *v += *delta,
                _ => return None,
            }
        }
        Plan::SetTypeArgValue { decl, k, value } => {
            let d = p.type_declarations.get_mut(*decl)?;
            match d.long_id.generic_args.get_mut(*k)? {
                GenericArg::Value(v) => *v = value.parse().ok()?,
                _ => return None,
            }
            d.declared_type_info = None;
        }
        Plan::SetTypeArgValues { decl, ks, values } => {
            let d = p.type_declarations.get_mut(*decl)?;
            for (k, value) in ks.iter().zip(values.iter()) {
                match d.long_id.generic_args.get_mut(*k)? {
                    GenericArg::Value(v) => *v = value.parse().ok()?,
                    _ => return None,
                }
            }
            d.declared_type_info = None;
        }
        Plan::SetLibfuncArgValue { decl, k, value } => {
            let d = p.libfunc_declarations.get_mut(*decl)?;
            match d.long_id.generic_args.get_mut(*k)? {
                GenericArg::Value(v) => *v = value.parse().ok()?,
                _ => return None,
            }
        }
        Plan::MoveEntry { func, stmt } => {
            p.funcs.get_mut(*func)?.entry_point = StatementIdx(*stmt);
        }
        Plan::SwapFuncParamType { func, k, ty } => {
            let tid = p.type_declarations.get(*ty)?.id.clone();
            let f = p.funcs.get_mut(*func)?;
            f.params.get_mut(*k)?.ty = tid.clone();
            *f.signature.param_types.get_mut(*k)? = tid;
        }
        Plan::SwapFuncRetType { func, k, ty } => {
            let tid = p.type_declarations.get(*ty)?.id.clone();
            let f = p.funcs.get_mut(*func)?;
            *f.signature.ret_types.get_mut(*k)? = tid;
        }
        Plan::AddFuncRet { func, ty } => {
            let tid = p.type_declarations.get(*ty)?.id.clone();
            let f = p.funcs.get_mut(*func)?;
            f.signature.ret_types.push(tid);
        }
        Plan::DropFuncRet { func } => {
            let f = p.funcs.get_mut(*func)?;
            f.signature.ret_types.pop()?;
        }
        Plan::SwapTypeDecls(i) => {
            if *i + 1 >= p.type_declarations.len() {
                return None;
            }
            p.type_declarations.swap(*i, *i + 1);
        }
        Plan::SwapLibfuncDecls(i) => {
            if *i + 1 >= p.libfunc_declarations.len() {
                return None;
            }
            p.libfunc_declarations.swap(*i, *i + 1);
        }
        Plan::StmtToReturn(i) => {
            let vars = match p.statements.get(*i)? {
                Statement::Invocation(inv) => inv.args.clone(),
                _ => return None,
            };
            p.statements[*i] = Statement::Return(vars);
        }
        Plan::MergeRetype { at, res } => {
            let at = *at;
            if at == 0 || at >= n {
                return None;
            }
            // statement at-1 must fall through into `at` with a result whose type we can name
            let (var, ty) = match &p.statements[at - 1] {
                Statement::Invocation(inv) if inv.branches.len() == 1 && inv.branches[0].target == BranchTarget::Fallthrough => {
                    let var = inv.branches[0].results.get(*res)?.clone();
                    let decl = p.libfunc_declarations.iter().find(|d| d.id == inv.libfunc_id)?;
                    let g = decl.long_id.generic_id.0.as_str();
                    if !matches!(g, "store_temp" | "rename" | "store_local" | "dup" | "felt252_const" | "const_as_immediate") {
                        return None;
                    }
                    let ty = match decl.long_id.generic_args.first()? {
                        GenericArg::Type(t) => t.clone(),
                        _ => return None,
                    };
                    (var, ty)
                }
                _ => return None,
            };
            // `at` must also be reached by a jump from an earlier statement (a true merge)
            let merged = p.statements[..at - 1].iter().any(|s| match s {
                Statement::Invocation(inv) => inv.branches.iter().any(|b| b.target == BranchTarget::Statement(StatementIdx(at))),
                _ => false,
            });
            if !merged {
                return None;
            }
            let max_ty = p.type_declarations.iter().map(|t| t.id.id).max().unwrap_or(0);
            let max_lf = p.libfunc_declarations.iter().map(|t| t.id.id).max().unwrap_or(0);
            // Unit type
            let unit_long = ConcreteTypeLongId {
                generic_id: GenericTypeId::from_string("Struct"),
                generic_args: vec![GenericArg::UserType(UserTypeId::from_string("Tuple"))],
            };
            let unit = match p.type_declarations.iter().find(|t| t.long_id == unit_long) {
                Some(t) => t.id.clone(),
                None => {
                    let id = ConcreteTypeId::new(max_ty + 1);
                    p.type_declarations.push(TypeDeclaration { id: id.clone(), long_id: unit_long, declared_type_info: None });
                    id
                }
            };
            let mut get_lf = |p: &mut Program, name: &str, arg: ConcreteTypeId, k: u64| -> ConcreteLibfuncId {
                let long = ConcreteLibfuncLongId { generic_id: GenericLibfuncId::from_string(name), generic_args: vec![GenericArg::Type(arg)] };
                match p.libfunc_declarations.iter().find(|d| d.long_id == long) {
                    Some(d) => d.id.clone(),
                    None => {
                        let id = ConcreteLibfuncId::new(max_lf + k);
                        p.libfunc_declarations.push(LibfuncDeclaration { id: id.clone(), long_id: long });
                        id
                    }
                }
            };
            let drop_lf = get_lf(&mut p, "drop", ty, 1);
            let unit_lf = get_lf(&mut p, "struct_construct", unit, 2);
            let fall = |results: Vec<VarId>| vec![BranchInfo { target: BranchTarget::Fallthrough, results }];
            p.statements.insert(at, Statement::Invocation(Invocation { libfunc_id: drop_lf, args: vec![var.clone()], branches: fall(vec![]) }));
            p.statements.insert(at + 1, Statement::Invocation(Invocation { libfunc_id: unit_lf, args: vec![], branches: fall(vec![var]) }));
            // jumps to the merge point (and everything behind it) move by two
            shift_targets(&mut p, |t| if t >= at { t + 2 } else { t });
        }
    }
    Some(p)
}

fn nearby_var(p: &Program, stmt: usize, rng: &mut Rng) -> u64 {
    // a variable mentioned within a window around `stmt`
    let lo = stmt.saturating_sub(6);
    let hi = (stmt + 6).min(p.statements.len().saturating_sub(1));
    let mut vars: Vec<u64> = vec![];
    for s in &p.statements[lo..=hi] {
        match s {
            Statement::Invocation(inv) => {
                vars.extend(inv.args.iter().map(|v| v.id));
                for b in &inv.branches {
                    vars.extend(b.results.iter().map(|v| v.id));
                }
            }
            Statement::Return(v) => vars.extend(v.iter().map(|v| v.id)),
        }
    }
    if vars.is_empty() { rng.below(20) } else { *rng.pick(&vars) }
}

/// Deterministic boundary-value plans: every type declaration with value arguments gets each of a few
/// degenerate argument tuples (empty/one-point/reversed ranges, extreme constants); at most `cap` plans,
/// sampled with `rng` when there are more.
pub fn boundary_plans(p: &Program, cap: usize, rng: &mut Rng) -> Vec<Plan> {
    use num_bigint::BigInt;
    let mut out = vec![];
    let big = |s: &str| s.parse::<BigInt>().unwrap();
    let u128max = big("340282366920938463463374607431768211455");
    let prime = big("3618502788666131213697322783095070105623107215331596699973092056135872020481");
    for (decl, d) in p.type_declarations.iter().enumerate() {
        let vals: Vec<(usize, BigInt)> = d.long_id.generic_args.iter().enumerate().filter_map(|(k, a)| match a {
            GenericArg::Value(v) => Some((k, v.clone())),
            _ => None,
        }).collect();
        let tuples: Vec<Vec<BigInt>> = match vals.len() {
            1 => {
                let v = &vals[0].1;
                vec![vec![big("0")], vec![big("-1")], vec![big("1")], vec![v + 1], vec![-v], vec![&u128max + 1], vec![&prime - 1], vec![prime.clone()], vec![-&prime]]
            }
            2 => {
                let (a, b) = (&vals[0].1, &vals[1].1);
                vec![
                    vec![big("0"), big("0")], vec![big("1"), big("1")], vec![big("-1"), big("-1")], vec![big("0"), big("1")],
                    vec![big("-1"), big("0")], vec![a.clone(), a.clone()], vec![b.clone(), b.clone()], vec![b.clone(), a.clone()],
                    vec![a.clone(), b + 1], vec![a - 1, b.clone()], vec![big("0"), b.clone()], vec![a.clone(), big("0")],
                    vec![big("0"), u128max.clone()], vec![big("0"), &u128max + 1], vec![-&u128max, u128max.clone()],
                    vec![big("0"), &prime - 1], vec![big("0"), prime.clone()], vec![-&prime, prime.clone()],
                ]
            }
            _ => continue,
        };
        for t in tuples {
            if t.iter().zip(vals.iter()).all(|(x, (_, v))| x == v) {
                continue;
            }
            out.push(Plan::SetTypeArgValues { decl, ks: vals.iter().map(|(k, _)| *k).collect(), values: t.iter().map(|x| x.to_string()).collect() });
        }
    }
    while out.len() > cap {
        let i = rng.below(out.len() as u64) as usize;
        out.swap_remove(i);
    }
    out
}

/// `n` seeded single-point mutation plans for `p`.
pub fn plans(p: &Program, n: usize, rng: &mut Rng) -> Vec<Plan> {
    let ns = p.statements.len();
    let nt = p.type_declarations.len();
    let nl = p.libfunc_declarations.len();
    let nf = p.funcs.len();
    let mut out = vec![];
    if ns == 0 || nl == 0 || nt == 0 || nf == 0 {
        return out;
    }
    // merge points: jump targets whose predecessor falls through into them
    let mut merges: Vec<usize> = vec![];
    for s in p.statements.iter() {
        if let Statement::Invocation(inv) = s {
            for b in &inv.branches {
                if let BranchTarget::Statement(StatementIdx(t)) = b.target {
                    if t > 0 && t < ns {
                        if let Statement::Invocation(prev) = &p.statements[t - 1] {
                            if prev.branches.len() == 1 && prev.branches[0].target == BranchTarget::Fallthrough && !prev.branches[0].results.is_empty() {
                                merges.push(t);
                            }
                        }
                    }
                }
            }
        }
    }
    merges.sort();
    merges.dedup();
    for (i, t) in merges.iter().enumerate() {
        if out.len() >= n / 4 + 1 || i >= 8 {
            break;
        }
        out.push(Plan::MergeRetype { at: *t, res: 0 });
    }
    let mut guard = 0;
    while out.len() < n && guard < n * 20 {
        guard += 1;
        let stmt = rng.below(ns as u64) as usize;
        let (nargs, nbr, nres0) = match &p.statements[stmt] {
            Statement::Invocation(inv) => {
                (inv.args.len(), inv.branches.len(), inv.branches.first().map(|b| b.results.len()).unwrap_or(0))
            }
            Statement::Return(v) => (v.len(), 0, 0),
        };
        let plan = match rng.below(26) {
            0 => Plan::DeleteStmt(stmt),
            1 => Plan::DupStmt(stmt),
            2 => Plan::SwapStmt(stmt),
            3 | 4 | 5 if nargs > 0 => {
                Plan::SwapArg { stmt, k: rng.below(nargs as u64) as usize, var: nearby_var(p, stmt, rng) }
            }
            6 | 7 if nbr > 0 => {
                let b = rng.below(nbr as u64) as usize;
                let nr = match &p.statements[stmt] {
                    Statement::Invocation(inv) => inv.branches[b].results.len(),
                    _ => 0,
                };
                if nr == 0 {
                    continue;
                }
                Plan::SwapRes { stmt, b, k: rng.below(nr as u64) as usize, var: nearby_var(p, stmt, rng) }
            }
            8 if nargs > 0 => Plan::DropArg { stmt, k: rng.below(nargs as u64) as usize },
            9 if nargs > 0 => Plan::DupArg { stmt, k: rng.below(nargs as u64) as usize },
            10 | 11 if nbr > 0 => Plan::SwapLibfunc { stmt, decl: rng.below(nl as u64) as usize },
            12 | 13 if nbr > 0 => {
                let t = if rng.chance(2, 3) {
                    (stmt as i64 + rng.range(-8, 8)).clamp(0, ns as i64 - 1) as usize
                } else {
                    rng.below(ns as u64) as usize
                };
                Plan::Retarget { stmt, b: rng.below(nbr as u64) as usize, target: t }
            }
            14 if nbr > 1 => Plan::MakeFallthrough { stmt, b: rng.below(nbr as u64) as usize },
            15 if nbr > 1 && nres0 > 0 => Plan::SwapBranches { stmt },
            16 | 17 => {
                let decl = rng.below(nl as u64) as usize;
                let na = p.libfunc_declarations[decl].long_id.generic_args.len();
                if na == 0 {
                    continue;
                }
                let k = rng.below(na as u64) as usize;
                match &p.libfunc_declarations[decl].long_id.generic_args[k] {
                    GenericArg::Type(_) => Plan::EditLibfuncArgType { decl, k, ty: rng.below(nt as u64) as usize },
                    GenericArg::Value(_) => {
                        Plan::EditLibfuncArgValue { decl, k, delta: *rng.pick(&[-1i64, 1, 2, -2, 1000, -1000]) }
                    }
                    _ => continue,
                }
            }
            18 => {
                let decl = rng.below(nt as u64) as usize;
                let na = p.type_declarations[decl].long_id.generic_args.len();
                if na == 0 {
                    continue;
                }
                let k = rng.below(na as u64) as usize;
                match &p.type_declarations[decl].long_id.generic_args[k] {
                    GenericArg::Type(_) => Plan::EditTypeArgType { decl, k, ty: rng.below(nt as u64) as usize },
                    _ => continue,
                }
            }
            19 => Plan::MoveEntry { func: rng.below(nf as u64) as usize, stmt },
            20 => {
                let func = rng.below(nf as u64) as usize;
                let np = p.funcs[func].params.len();
                if np == 0 {
                    continue;
                }
                Plan::SwapFuncParamType { func, k: rng.below(np as u64) as usize, ty: rng.below(nt as u64) as usize }
            }
            21 => {
                let func = rng.below(nf as u64) as usize;
                let nr = p.funcs[func].signature.ret_types.len();
                if nr == 0 {
                    continue;
                }
                if rng.chance(1, 3) {
                    Plan::DropFuncRet { func }
                } else if rng.chance(1, 3) {
                    // prefer repeating the last declared return type (the common prefix still matches)
                    let last = p.funcs[func].signature.ret_types.last().unwrap().clone();
                    let ty = if rng.chance(2, 3) {
                        p.type_declarations.iter().position(|d| d.id == last).unwrap_or(0)
                    } else {
                        rng.below(nt as u64) as usize
                    };
                    Plan::AddFuncRet { func, ty }
                } else {
                    Plan::SwapFuncRetType { func, k: rng.below(nr as u64) as usize, ty: rng.below(nt as u64) as usize }
                }
            }
            22 => {
                if rng.chance(1, 2) {
                    Plan::SwapTypeDecls(rng.below(nt as u64) as usize)
                } else {
                    Plan::SwapLibfuncDecls(rng.below(nl as u64) as usize)
                }
            }
            23 if nbr > 0 => Plan::StmtToReturn(stmt),
            24 | 25 => {
                // boundary values for value arguments: absolute ones and ones next to the sibling arguments
                let on_type = rng.chance(2, 3);
                let cands: Vec<(usize, usize)> = if on_type {
                    p.type_declarations.iter().enumerate().flat_map(|(i, d)| {
                        d.long_id.generic_args.iter().enumerate().filter(|(_, a)| matches!(a, GenericArg::Value(_))).map(move |(k, _)| (i, k))
                    }).collect()
                } else {
                    p.libfunc_declarations.iter().enumerate().flat_map(|(i, d)| {
                        d.long_id.generic_args.iter().enumerate().filter(|(_, a)| matches!(a, GenericArg::Value(_))).map(move |(k, _)| (i, k))
                    }).collect()
                };
                if cands.is_empty() {
                    continue;
                }
                let (decl, k) = *rng.pick(&cands);
                let args = if on_type { &p.type_declarations[decl].long_id.generic_args } else { &p.libfunc_declarations[decl].long_id.generic_args };
                let mut vals: Vec<String> = ["0", "1", "-1", "2", "255", "256", "340282366920938463463374607431768211455",
                    "340282366920938463463374607431768211456", "-170141183460469231731687303715884105728",
                    "3618502788666131213697322783095070105623107215331596699973092056135872020480",
                    "3618502788666131213697322783095070105623107215331596699973092056135872020481",
                    "-3618502788666131213697322783095070105623107215331596699973092056135872020480"]
                    .iter().map(|s| s.to_string()).collect();
                for a in args.iter() {
                    if let GenericArg::Value(v) = a {
                        vals.push(v.to_string());
                        let one = num_bigint::BigInt::from(1);
                        vals.push((v + &one).to_string());
                        vals.push((v - &one).to_string());
                        vals.push((-v.clone()).to_string());
                    }
                }
                let value = rng.pick(&vals).clone();
                if on_type { Plan::SetTypeArgValue { decl, k, value } } else { Plan::SetLibfuncArgValue { decl, k, value } }
            }
            _ => continue,
        };
        out.push(plan);
    }
    out
}

//! Small shared helpers: deterministic PRNG, NDJSON I/O.
use std::io::{BufRead, Write};

/// splitmix64 — deterministic, seedable, no external crates.
#[derive(Clone)]
pub struct Rng(pub u64);
impl Rng {
    pub fn new(seed: u64) -> Self {
        Rng(seed.wrapping_mul(0x9E3779B97F4A7C15).wrapping_add(0x1234_5678_9abc_def1))
    }
    pub fn next_u64(&mut self) -> u64 {
        self.0 = self.0.wrapping_add(0x9E3779B97F4A7C15);
        let mut z = self.0;
        z = (z ^ (z >> 30)).wrapping_mul(0xBF58476D1CE4E5B9);
        z = (z ^ (z >> 27)).wrapping_mul(0x94D049BB133111EB);
        z ^ (z >> 31)
    }
    pub fn below(&mut self, n: u64) -> u64 {
        if n == 0 { 0 } else { self.next_u64() % n }
    }
    pub fn range(&mut self, lo: i64, hi: i64) -> i64 {
        lo + self.below((hi - lo + 1) as u64) as i64
    }
    pub fn chance(&mut self, num: u64, den: u64) -> bool {
        self.below(den) < num
    }
    pub fn pick<'a, T>(&mut self, xs: &'a [T]) -> &'a T {
        &xs[self.below(xs.len() as u64) as usize]
    }
}

pub fn read_ndjson(path: &str) -> Vec<serde_json::Value> {
    let f = std::fs::File::open(path).unwrap_or_else(|e| panic!("open {path}: {e}"));
    std::io::BufReader::new(f)
        .lines()
        .map(|l| l.unwrap())
        .filter(|l| !l.trim().is_empty())
        .map(|l| serde_json::from_str(&l).unwrap_or_else(|e| panic!("bad json line: {e}: {l}")))
        .collect()
}

pub struct NdjsonWriter(std::io::BufWriter<std::fs::File>);
impl NdjsonWriter {
    pub fn create(path: &str) -> Self {
        if let Some(p) = std::path::Path::new(path).parent() {
            let _ = std::fs::create_dir_all(p);
        }
        NdjsonWriter(std::io::BufWriter::new(
            std::fs::File::create(path).unwrap_or_else(|e| panic!("create {path}: {e}")),
        ))
    }
    pub fn write(&mut self, v: &serde_json::Value) {
        serde_json::to_writer(&mut self.0, v).unwrap();
        self.0.write_all(b"\n").unwrap();
    }
    pub fn finish(mut self) {
        self.0.flush().unwrap();
    }
}

pub fn seed_from_env() -> u64 {
    std::env::var("VERIF_SEED").ok().and_then(|s| s.parse().ok()).unwrap_or(1)
}

/// Root of the repository under test (default /repo; VERIF_REPO overrides for mutation testing).
pub fn repo_root() -> String {
    std::env::var("VERIF_REPO").unwrap_or_else(|_| "/repo".to_string())
}
pub fn corelib_src() -> std::path::PathBuf {
    std::path::PathBuf::from(repo_root()).join("corelib").join("src")
}

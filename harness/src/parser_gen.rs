//! Input generators shared by the parser bins (C09/C10): concretisation of `LexModel` class
//! strings and token soups, corpus collection from the repository under test, seeded text mutators.
use cvh::util::Rng;
use serde_json::Value;

/// Character classes of `LexModel` (specs/ParserCursor/LexModel.tla: `FullAlphabet`) and the concrete
/// text each class stands for.  Byte widths must agree with `ClassWidth` in the spec.
pub fn class_text(c: &str) -> Option<&'static str> {
    Some(match c {
        "sp" => " ",
        "tab" => "\t",
        "cr" => "\r",
        "nl" => "\n",
        "slash" => "/",
        "digit" => "7",
        "zero" => "0",
        "alpha" => "a",
        "hexx" => "x",
        "us" => "_",
        "quote" => "'",
        "dquote" => "\"",
        "bslash" => "\\",
        "gt" => ">",
        "lt" => "<",
        "amp" => "&",
        "bar" => "|",
        "eq" => "=",
        "colon" => ":",
        "minus" => "-",
        "bang" => "!",
        "dot" => ".",
        "hash" => "#",
        "lbrack" => "[",
        "rbrack" => "]",
        "lparen" => "(",
        "rparen" => ")",
        "lbrace" => "{",
        "rbrace" => "}",
        "semi" => ";",
        "comma" => ",",
        "dollar" => "$",
        "star" => "*",
        "at" => "@",
        "plus" => "+",
        "ff" => "\u{c}",
        "u2" => "\u{e9}",
        "u3" => "\u{20ac}",
        "u4" => "\u{1f600}",
        _ => return None,
    })
}

/// Token texts of the soup alphabet (`SoupAlphabet` in LexModel.tla); every token carries its own
/// separator so that the soup is the plain concatenation.
pub fn soup_text(t: &str) -> Option<&'static str> {
    Some(match t {
        "fn" => "fn ",
        "id" => "a ",
        "id2" => "b",
        "pub" => "pub ",
        "mod" => "mod ",
        "struct" => "struct ",
        "enum" => "enum ",
        "trait" => "trait ",
        "impl" => "impl ",
        "of" => "of ",
        "use" => "use ",
        "let" => "let ",
        "if" => "if ",
        "else" => "else ",
        "match" => "match ",
        "while" => "while ",
        "for" => "for ",
        "loop" => "loop ",
        "return" => "return ",
        "const" => "const ",
        "extern" => "extern ",
        "type" => "type ",
        "macro" => "macro ",
        "mut" => "mut ",
        "ref" => "ref ",
        "lbrace" => "{",
        "rbrace" => "}",
        "lparen" => "(",
        "rparen" => ")",
        "lbrack" => "[",
        "rbrack" => "]",
        "semi" => ";",
        "comma" => ",",
        "colon" => ":",
        "coloncolon" => "::",
        "lt" => "<",
        "gt" => ">",
        "ge" => ">=",
        "eq" => "=",
        "arrow" => "->",
        "matcharrow" => "=>",
        "andand" => "&&",
        "and" => "&",
        "oror" => "||",
        "or" => "|",
        "bang" => "!",
        "dot" => ".",
        "dotdot" => "..",
        "plus" => "+",
        "minus" => "-",
        "star" => "*",
        "at" => "@",
        "question" => "?",
        "dollar" => "$",
        "hash" => "#",
        "hashbrack" => "#[",
        "underscore" => "_ ",
        "num" => "1",
        "numsuf" => "0x1f_u8 ",
        "badnum" => "0xZ_ ",
        "str" => "\"s\"",
        "strunterm" => "\"s",
        "short" => "'c'",
        "shortunterm" => "'c",
        "bytestr" => "b\"x\"",
        "comment" => "// c\n",
        "doc" => "/// d\n",
        "innerdoc" => "//! i\n",
        "nl" => "\n",
        "sp" => " ",
        "bad" => "\u{e9}",
        "ff" => "\u{c}",
        _ => return None,
    })
}

/// Contexts a soup is embedded in (`SoupCtxs` in LexModel.tla): (prefix, suffix).
pub fn soup_ctx(c: &str) -> Option<(&'static str, &'static str)> {
    Some(match c {
        "bare" => ("", ""),
        "fnbody" => ("fn f() { ", " }"),
        "fnbody_open" => ("fn f() { ", ""),
        "params" => ("fn f(", ") {}"),
        "generics" => ("fn f<", ">() {}"),
        "struct" => ("struct S { ", " }"),
        "enum" => ("enum E { ", " }"),
        "trait" => ("trait T { ", " }"),
        "impl" => ("impl I of T { ", " }"),
        "attr" => ("#[", "] fn f() {}"),
        "use" => ("use a::{", "};"),
        "macro" => ("fn f() { m!(", "); }"),
        "match" => ("fn f() { match x { ", " } }"),
        "expr" => ("const C: u8 = ", ";"),
        "letpat" => ("fn f() { let ", " = 1; }"),
        "mod" => ("mod m { ", " }"),
        "macrodecl" => ("macro m { ", " }"),
        "closure" => ("fn f() { let c = |", "| 1; }"),
        _ => return None,
    })
}

/// Turns one input line (TLC REPLAY payload or plain text item) into the concrete text.
/// Returns (text, predicted byte length if the spec supplied one).
pub fn concretise(v: &Value) -> Result<(String, Option<usize>), String> {
    let k = v["k"].as_str().unwrap_or("text");
    match k {
        "text" => Ok((v["text"].as_str().ok_or("text missing")?.to_string(), None)),
        "str" => {
            let mut s = String::new();
            for c in v["classes"].as_array().ok_or("classes missing")? {
                let c = c.as_str().ok_or("class not a string")?;
                s.push_str(class_text(c).ok_or_else(|| format!("unknown class {c}"))?);
            }
            Ok((s, v["len"].as_u64().map(|x| x as usize)))
        }
        "soup" => {
            let (pre, suf) = soup_ctx(v["ctx"].as_str().unwrap_or("bare"))
                .ok_or_else(|| format!("unknown ctx {}", v["ctx"]))?;
            let mut s = String::from(pre);
            for c in v["classes"].as_array().ok_or("classes missing")? {
                let c = c.as_str().ok_or("tok not a string")?;
                s.push_str(soup_text(c).ok_or_else(|| format!("unknown soup token {c}"))?);
            }
            s.push_str(suf);
            Ok((s, v["len"].as_u64().map(|x| x as usize)))
        }
        _ => Err(format!("unknown input kind {k}")),
    }
}

// ------------------------------------------------------------------ corpus

fn walk(dir: &std::path::Path, out: &mut Vec<std::path::PathBuf>) {
    let Ok(rd) = std::fs::read_dir(dir) else { return };
    let mut entries: Vec<_> = rd.filter_map(|e| e.ok()).map(|e| e.path()).collect();
    entries.sort();
    for p in entries {
        let name = p.file_name().and_then(|s| s.to_str()).unwrap_or("");
        if name == "target" || name.starts_with('.') {
            continue;
        }
        if p.is_dir() {
            walk(&p, out);
        } else {
            out.push(p);
        }
    }
}

/// Every `.cairo` file under corelib/, examples/, tests/, crates/ and every `cairo_code`-like section
/// of the files under a `*test_data*` directory.  Returns (origin, text), sorted by origin.
pub fn collect_corpus(root: &str) -> Vec<(String, String)> {
    let mut files = vec![];
    for sub in ["corelib", "examples", "tests", "crates"] {
        walk(&std::path::Path::new(root).join(sub), &mut files);
    }
    let mut out = vec![];
    for p in files {
        let ps = p.to_string_lossy().to_string();
        let rel = ps.strip_prefix(root).unwrap_or(&ps).trim_start_matches('/').to_string();
        let is_cairo = ps.ends_with(".cairo");
        let in_test_data = rel.contains("test_data");
        if !is_cairo && !in_test_data {
            continue;
        }
        let Ok(bytes) = std::fs::read(&p) else { continue };
        let Ok(text) = String::from_utf8(bytes) else { continue };
        if is_cairo {
            out.push((rel.clone(), text.clone()));
        }
        if in_test_data && text.contains("//! > ") {
            // test-data file: sections `//! > name` ... until the next `//! > ` line.
            let mut name = String::new();
            let mut body = String::new();
            let mut idx = 0;
            let flush = |name: &str, body: &str, idx: &mut usize, out: &mut Vec<(String, String)>| {
                if matches!(name, "cairo_code" | "module_code" | "function_code" | "cairo" | "code")
                    && !body.trim().is_empty()
                    && !body.trim_start().starts_with(">>> file:")
                {
                    out.push((format!("{rel}#{idx}"), body.trim_start_matches('\n').to_string()));
                    *idx += 1;
                }
            };
            for line in text.split_inclusive('\n') {
                if let Some(rest) = line.strip_prefix("//! > ") {
                    flush(&name, &body, &mut idx, &mut out);
                    name = rest.trim().to_string();
                    body.clear();
                } else {
                    body.push_str(line);
                }
            }
            flush(&name, &body, &mut idx, &mut out);
        }
    }
    out.sort();
    out.dedup_by(|a, b| a.1 == b.1);
    out
}

// ------------------------------------------------------------------ mutators

fn char_boundaries(s: &str) -> Vec<usize> {
    let mut v: Vec<usize> = s.char_indices().map(|(i, _)| i).collect();
    v.push(s.len());
    v
}

/// Crude token boundaries: maximal runs of identifier characters, single other characters, and
/// whitespace runs.  Good enough to delete/duplicate/swap "tokens".
fn token_spans(s: &str) -> Vec<(usize, usize)> {
    let mut out = vec![];
    let mut it = s.char_indices().peekable();
    while let Some((i, c)) = it.next() {
        let class = |c: char| {
            if c.is_ascii_alphanumeric() || c == '_' {
                1
            } else if c.is_whitespace() {
                2
            } else {
                0
            }
        };
        let k = class(c);
        let mut end = i + c.len_utf8();
        if k != 0 {
            while let Some(&(j, d)) = it.peek() {
                if class(d) == k {
                    end = j + d.len_utf8();
                    it.next();
                } else {
                    break;
                }
            }
        }
        out.push((i, end));
    }
    out
}

const INJECT: &[&str] = &[
    "\u{e9}", "\u{20ac}", "\u{1f600}", "\u{c}", "\u{0}", "\u{feff}", "\u{2028}", "// x\n", "/// d\n", "//! i\n", "{", "}",
    "(", ")", "[", "]", "<", ">", "\"", "'", "\\", "#[", "#", "::", ";", ",", "$", "&&", "||", ">=", ">>", "=>", "->",
    "..", "!", "@", "?", "_", "0x", "1_", "fn ", "pub ", "impl ", "match ", "let ", "else ", "macro ", "\r", "\t",
];

/// Maximal bracket nesting depth of a text (ignores strings/comments: an over-approximation).
pub fn nesting_depth(s: &str) -> usize {
    let mut d: i64 = 0;
    let mut m: i64 = 0;
    for b in s.bytes() {
        match b {
            b'(' | b'[' | b'{' => {
                d += 1;
                m = m.max(d);
            }
            b')' | b']' | b'}' => d = (d - 1).max(0),
            _ => {}
        }
    }
    m as usize
}

/// Longest run of characters that each open one recursion level in the parser without a closing
/// counterpart (prefix operators, `<`, `.`-chains are iterative).  Used to respect the nesting cap.
pub fn prefix_run(s: &str) -> usize {
    let mut best = 0;
    let mut cur = 0;
    for b in s.bytes() {
        if matches!(b, b'!' | b'-' | b'@' | b'*' | b'&' | b'~' | b'<' | b'|') {
            cur += 1;
            best = best.max(cur);
        } else if !b.is_ascii_whitespace() {
            cur = 0;
        }
    }
    best
}

/// One seeded mutation step.  Always returns valid UTF-8.
pub fn mutate_once(s: &str, rng: &mut Rng) -> String {
    if s.is_empty() {
        return (*rng.pick(INJECT)).to_string();
    }
    let cb = char_boundaries(s);
    let at = |rng: &mut Rng| cb[rng.below(cb.len() as u64) as usize];
    match rng.below(14) {
        0 => {
            // delete a byte range (char aligned)
            let a = at(rng);
            let len = 1 + rng.below(8) as usize;
            let b = cb.iter().copied().find(|&x| x >= a + len).unwrap_or(s.len());
            format!("{}{}", &s[..a], &s[b..])
        }
        1 => {
            // truncate
            let a = at(rng);
            s[..a].to_string()
        }
        2 => {
            // truncate head
            let a = at(rng);
            s[a..].to_string()
        }
        3 | 4 => {
            // inject
            let a = at(rng);
            format!("{}{}{}", &s[..a], rng.pick(INJECT), &s[a..])
        }
        5 | 6 => {
            // delete a token
            let t = token_spans(s);
            let (a, b) = t[rng.below(t.len() as u64) as usize];
            format!("{}{}", &s[..a], &s[b..])
        }
        7 => {
            // duplicate a token
            let t = token_spans(s);
            let (a, b) = t[rng.below(t.len() as u64) as usize];
            format!("{}{}{}", &s[..b], &s[a..b], &s[b..])
        }
        8 => {
            // swap two adjacent tokens
            let t = token_spans(s);
            if t.len() < 2 {
                return s.to_string();
            }
            let i = rng.below((t.len() - 1) as u64) as usize;
            let (a, b) = t[i];
            let (c, d) = t[i + 1];
            format!("{}{}{}{}", &s[..a], &s[c..d], &s[a..b], &s[d..])
        }
        9 => {
            // replace a token by another token of the text
            let t = token_spans(s);
            let (a, b) = t[rng.below(t.len() as u64) as usize];
            let (c, d) = t[rng.below(t.len() as u64) as usize];
            format!("{}{}{}", &s[..a], &s[c..d], &s[b..])
        }
        10 => {
            // unbalance: delete one bracket
            let idx: Vec<usize> =
                s.char_indices().filter(|(_, c)| "(){}[]<>".contains(*c)).map(|(i, _)| i).collect();
            if idx.is_empty() {
                return format!("{s}}}");
            }
            let a = idx[rng.below(idx.len() as u64) as usize];
            format!("{}{}", &s[..a], &s[a + 1..])
        }
        11 => {
            // take a window (subtree-ish): a slice between two token boundaries
            let t = token_spans(s);
            let i = rng.below(t.len() as u64) as usize;
            let n = 1 + rng.below(40) as usize;
            let j = (i + n).min(t.len() - 1);
            s[t[i].0..t[j].1].to_string()
        }
        12 => {
            // duplicate a line
            let lines: Vec<&str> = s.split_inclusive('\n').collect();
            let i = rng.below(lines.len() as u64) as usize;
            let mut out = String::new();
            for (k, l) in lines.iter().enumerate() {
                out.push_str(l);
                if k == i {
                    out.push_str(l);
                }
            }
            out
        }
        _ => {
            // nest: wrap a window in brackets a few times (respecting the cap is the caller's job)
            let t = token_spans(s);
            let i = rng.below(t.len() as u64) as usize;
            let j = (i + rng.below(6) as usize).min(t.len() - 1);
            let n = 1 + rng.below(12) as usize;
            let (o, c) = *rng.pick(&[("(", ")"), ("[", "]"), ("{", "}"), ("!", ""), ("-", ""), ("@", ""), ("<", ">")]);
            format!("{}{}{}{}{}", &s[..t[i].0], o.repeat(n), &s[t[i].0..t[j].1], c.repeat(n), &s[t[j].1..])
        }
    }
}

/// `n` mutants drawn from the corpus (1..=3 mutation steps each), nesting capped at `cap`.
/// Large files are first cut to a window of at most `max_len` bytes so that many mutants stay small
/// enough for trace validation while some keep their full size.
pub fn gen_mutants(corpus: &[(String, String)], n: usize, seed: u64, cap: usize, max_len: usize) -> Vec<(String, String)> {
    let mut rng = Rng::new(seed ^ 0xC09C_10);
    let mut out = Vec::with_capacity(n);
    if corpus.is_empty() {
        return out;
    }
    let mut guard = 0;
    while out.len() < n && guard < n * 20 {
        guard += 1;
        let (origin, text) = &corpus[rng.below(corpus.len() as u64) as usize];
        let mut s = text.clone();
        // window: 1/2 of the mutants use a small window, 1/4 a medium one, 1/4 the whole file
        let r = rng.below(4);
        let lim = if r < 2 { 400 } else if r == 2 { 4000 } else { max_len };
        if s.len() > lim {
            let cb = char_boundaries(&s);
            let a = cb[rng.below(cb.len() as u64) as usize];
            let b = cb.iter().copied().find(|&x| x >= a + lim).unwrap_or(s.len());
            s = s[a..b].to_string();
        }
        let steps = 1 + rng.below(3);
        for _ in 0..steps {
            s = mutate_once(&s, &mut rng);
        }
        if nesting_depth(&s) > cap || prefix_run(&s) > cap {
            continue;
        }
        out.push((format!("{origin}~{}", out.len()), s));
    }
    out
}

/// Deterministic deep-nesting probes at exactly the cap (ordinary nesting depths must not overflow).
pub fn nesting_probes(cap: usize) -> Vec<(String, String)> {
    let mut out = vec![];
    let mk = |name: &str, s: String| (format!("nest:{name}:{cap}"), s);
    let n = cap;
    out.push(mk("paren_expr", format!("fn f() {{ let x = {}1{}; }}", "(".repeat(n), ")".repeat(n))));
    out.push(mk("block_expr", format!("fn f() {{ {}1{} }}", "{".repeat(n), "}".repeat(n))));
    out.push(mk("array_type", format!("fn f(x: {}u8{}) {{}}", "Array<".repeat(n), ">".repeat(n))));
    out.push(mk("tuple_type", format!("fn f(x: {}u8{}) {{}}", "(".repeat(n), ",)".repeat(n))));
    out.push(mk("unary", format!("fn f() {{ let x = {}1; }}", "-".repeat(n))));
    out.push(mk("not", format!("fn f() {{ let x = {}true; }}", "!".repeat(n))));
    out.push(mk("snap", format!("fn f(x: {}u8) {{}}", "@".repeat(n))));
    out.push(mk("mods", format!("{}{}", "mod m { ".repeat(n), "}".repeat(n))));
    out.push(mk("if_else", format!("fn f() {{ {} {{}} }}", "if a {} else".repeat(n))));
    out.push(mk("binop", format!("fn f() {{ let x = 1{}; }}", " + 1".repeat(n))));
    out.push(mk("call", format!("fn f() {{ {}1{}; }}", "g(".repeat(n), ")".repeat(n))));
    out.push(mk("macro", format!("fn f() {{ {}1{}; }}", "m!(".repeat(n), ")".repeat(n))));
    out.push(mk("brack_open", format!("fn f() {{ {}", "[".repeat(n))));
    out.push(mk("paren_open", format!("fn f() {{ {}", "(".repeat(n))));
    out.push(mk("brace_open", "{".repeat(n)));
    out.push(mk("brace_close", "}".repeat(n)));
    out.push(mk("lt_open", format!("fn f() {{ let x: {}", "A<".repeat(n))));
    out.push(mk("attr", format!("{} fn f() {{}}", "#[a(b(c))]".repeat(n))));
    out.push(mk("pattern", format!("fn f() {{ let {}a{} = x; }}", "(".repeat(n), ",)".repeat(n))));
    out.push(mk("match", format!("fn f() {{ {}1{} }}", "match x { _ => ".repeat(n), " }".repeat(n))));
    out.push(mk("closure", format!("fn f() {{ let c = {}1; }}", "|| ".repeat(n))));
    out.push(mk("deref", format!("fn f() {{ let x = {}a; }}", "*".repeat(n))));
    out.push(mk("use_tree", format!("use a::{}b{};", "{c::".repeat(n), "}".repeat(n))));
    out
}

//! C11 — shared code of the `fmt_check` bin: recording of the formatter's input/output element
//! streams (code tokens + comment words, with the neutral syntactic *facts* the `FormatStream`
//! spec's guards need), the renderer of `FormatGeometry` cases, and the seeded layout mutators.
//!
//! Nothing in here decides whether an edit is allowed: the walk only reports what the parse tree
//! says (kinds, positions, sibling kinds).  The decision is `FormatStream.tla`'s.
use cairo_lang_formatter::{
    BreakingBehaviorConfig, CollectionsBreakingBehavior, FormatterConfig, get_formatted_file,
};
use cairo_lang_parser::macro_helpers::token_tree_as_wrapped_arg_list;
use cairo_lang_parser::utils::SimpleParserDatabase;
use cairo_lang_syntax::node::ast::{self, TokenTreeNode};
use cairo_lang_syntax::node::kind::SyntaxKind;
use cairo_lang_syntax::node::{SyntaxNode, TypedSyntaxNode};
use cvh::util::Rng;
use salsa::Database;
use serde_json::{Value, json};

// ------------------------------------------------------------------------------------------------
// configuration

pub fn config_from_json(c: &Value) -> FormatterConfig {
    let b = |k: &str| c[k].as_bool().unwrap_or(false);
    let bb = |k: &str| -> CollectionsBreakingBehavior { b(k).into() };
    FormatterConfig::new(
        c["tab"].as_u64().unwrap_or(4) as usize,
        c["ml"].as_u64().unwrap_or(100) as usize,
        b("sort"),
        BreakingBehaviorConfig { tuple: bb("tuple"), fixed_array: bb("farr"), macro_call: bb("mac") },
        b("merge"),
        b("dup"),
    )
}

// ------------------------------------------------------------------------------------------------
// element stream

/// One frame of the walk: a non-terminal node being visited.
struct Frame<'a> {
    kind: SyntaxKind,
    node: SyntaxNode<'a>,
    /// 1-based index of the child currently being visited, and the number of children.
    idx: usize,
    n: usize,
}

pub struct Streams {
    pub elems: Vec<Value>,
    pub secs: Vec<Value>,
    pub n_comments: usize,
    /// comments that share their line with the preceding token (trailing trivia)
    pub n_trailing_comments: usize,
    /// (prefix + first word, is-trailing) of every comment line, in order
    pub comment_classes: Vec<(String, bool)>,
}

struct Walker<'a> {
    db: &'a dyn Database,
    elems: Vec<Value>,
    secs: Vec<Value>,
    stack: Vec<Frame<'a>>,
    n_comments: usize,
    n_trailing_comments: usize,
    comment_classes: Vec<(String, bool)>,
    /// Element index at which the decorations (attributes + visibility) of the `use` item walked
    /// last ended.
    use_dec_end: usize,
}

fn kname(k: SyntaxKind) -> String {
    format!("{k:?}")
}

fn is_comment_kind(k: SyntaxKind) -> bool {
    matches!(
        k,
        SyntaxKind::TokenSingleLineComment
            | SyntaxKind::TokenSingleLineDocComment
            | SyntaxKind::TokenSingleLineInnerComment
    )
}

/// Kind of sortable section a child belongs to ("" = immovable).  Pure syntax facts: a `use`
/// item, or a `mod` item without a body.
fn sort_kind<'a>(db: &'a dyn Database, node: &SyntaxNode<'a>) -> &'static str {
    match node.kind(db) {
        SyntaxKind::ItemUse => "use",
        SyntaxKind::ItemModule => {
            let m = ast::ItemModule::from_syntax_node(db, *node);
            if matches!(m.body(db), ast::MaybeModuleBody::None(_)) { "mod" } else { "" }
        }
        _ => "",
    }
}

impl<'a> Walker<'a> {
    fn comment(&mut self, text: &str) {
        let t = text.trim();
        let pl = t.chars().take_while(|c| *c == '/').count();
        let pe = t[pl..].chars().take_while(|c| *c == '!').count();
        let prefix = &t[..pl + pe];
        self.elems.push(json!({"k": "cs", "t": prefix, "p": ""}));
        for w in t[pl + pe..].split_whitespace() {
            self.elems.push(json!({"k": "cw", "t": w, "p": prefix}));
        }
        self.n_comments += 1;
    }

    fn trivia(&mut self, trivia: &SyntaxNode<'a>, trailing: bool) {
        for t in trivia.get_children(self.db) {
            let k = t.kind(self.db);
            if is_comment_kind(k) {
                let text = t.text(self.db).map(|s| s.long(self.db).to_string()).unwrap_or_default();
                self.comment(&text);
                let key: String = text.split_whitespace().take(2).collect::<Vec<_>>().join(" ");
                self.comment_classes.push((key, trailing));
                if trailing {
                    self.n_trailing_comments += 1;
                }
            } else if k == SyntaxKind::TokenSkipped || k == SyntaxKind::TriviumSkippedNode {
                // Only present when the parser reported diagnostics; recorded so that such a
                // stream can never be mistaken for a clean one.
                self.elems.push(json!({"k": "skipped", "t": t.get_text(self.db), "p": ""}));
            }
        }
    }

    /// Facts about a terminal's position, from the walk's own stack (so that a re-parsed macro
    /// argument list is seen exactly as a detached tree, like the formatter sees it).
    fn facts(&self, kind: SyntaxKind) -> Value {
        let depth = self.stack.len();
        let anc: Vec<String> = self.stack.iter().rev().take(5).map(|f| kname(f.kind)).collect();
        let pos: Vec<Value> =
            self.stack.iter().rev().take(3).map(|f| json!([f.idx, f.n])).collect();
        let mut x = json!({"anc": anc, "pos": pos});
        if kind == SyntaxKind::TerminalSemicolon && depth >= 1 {
            let parent = &self.stack[depth - 1];
            let sib: Vec<String> =
                parent.node.get_children(self.db).iter().map(|c| kname(c.kind(self.db))).collect();
            x["sib"] = json!(sib);
            // First terminal of the parent's next sibling ("none": no next sibling, "empty": it has
            // no terminals).
            let nxt = if depth >= 2 {
                let gp = &self.stack[depth - 2];
                match gp.node.get_children(self.db).get(gp.idx) {
                    None => "none".to_string(),
                    Some(next) => match next.tokens(self.db).next() {
                        None => "empty".to_string(),
                        Some(t) => kname(t.kind(self.db)),
                    },
                }
            } else {
                "none".to_string()
            };
            x["nxt"] = json!(nxt);
        }
        x
    }

    fn terminal(&mut self, node: &SyntaxNode<'a>) {
        let kind = node.kind(self.db);
        let ch = node.get_children(self.db);
        if ch.len() != 3 {
            self.elems.push(json!({"k": "malformed", "t": "", "p": ""}));
            return;
        }
        self.trivia(&ch[0], false);
        let text = ch[1].text(self.db).map(|s| s.long(self.db).to_string()).unwrap_or_default();
        let p = self.stack.last().map(|f| kname(f.kind)).unwrap_or_default();
        let mut e = json!({"k": kname(kind), "t": text, "p": p});
        if matches!(
            kind,
            SyntaxKind::TerminalComma
                | SyntaxKind::TerminalSemicolon
                | SyntaxKind::TerminalColonColon
                | SyntaxKind::TerminalEmpty
        ) {
            e["x"] = self.facts(kind);
        }
        self.elems.push(e);
        self.trivia(&ch[2], true);
    }

    fn walk(&mut self, node: &SyntaxNode<'a>) {
        let db = self.db;
        let kind = node.kind(db);
        if kind == SyntaxKind::TokenTreeNode {
            // A macro call's arguments: seen as a wrapped argument list when they parse as one
            // (legacy inline macros), as a detached tree — exactly the view the formatter has.
            let ttn = TokenTreeNode::from_syntax_node(db, *node);
            if let Some(wal) = token_tree_as_wrapped_arg_list(ttn, db) {
                let file_id = node.stable_ptr(db).file_id(db);
                let root = SyntaxNode::new_detached_root_with_offset(
                    db,
                    file_id,
                    wal.0,
                    Some(node.offset(db)),
                );
                let saved = std::mem::take(&mut self.stack);
                self.walk(&root);
                self.stack = saved;
                return;
            }
        }
        if kind.is_terminal() {
            self.terminal(node);
            return;
        }
        if kind.is_token() {
            // A bare token outside a terminal (does not happen in well-formed trees).
            self.elems.push(json!({"k": kname(kind), "t": node.get_text(db), "p": "?"}));
            return;
        }
        let children = node.get_children(db);
        let n = children.len();
        // Sections of consecutive `use` items / body-less `mod` items among the children.
        let mut sec_open: Option<(&'static str, usize, Vec<Value>)> = None;
        for (i, child) in children.iter().enumerate() {
            let sk = sort_kind(db, child);
            if let Some((k, _, _)) = &sec_open
                && *k != sk
            {
                let (k, a, items) = sec_open.take().unwrap();
                self.secs.push(json!({"sk": k, "a": a, "b": self.elems.len(), "items": items}));
            }
            let start = self.elems.len() + 1;
            self.stack.push(Frame { kind, node: *node, idx: i + 1, n });
            self.walk(child);
            self.stack.pop();
            if kind == SyntaxKind::ItemUse && i == 1 {
                // children: attributes, visibility, use_kw, dollar, use_path, semicolon
                self.use_dec_end = self.elems.len();
            }
            if !sk.is_empty() {
                let end = self.elems.len();
                let mut item = json!({"a": start, "b": end});
                if sk == "use" {
                    let u = ast::ItemUse::from_syntax_node(db, *child);
                    item["leaves"] = json!(use_leaves(db, &u));
                    item["dollar"] =
                        json!(!matches!(u.dollar(db), ast::OptionTerminalDollar::Empty(_)));
                    // The decorations (attributes + visibility) are elements a..=d of the item.
                    item["d"] = json!(self.use_dec_end);
                }
                match &mut sec_open {
                    Some((_, _, items)) => items.push(item),
                    None => sec_open = Some((sk, start, vec![item])),
                }
            }
        }
        if let Some((k, a, items)) = sec_open.take() {
            self.secs.push(json!({"sk": k, "a": a, "b": self.elems.len(), "items": items}));
        }
    }
}

/// Flattens a `use` item into its leaves: `[path segments..., alias-or-""]` with the path as the
/// texts of the segments from the root.  `*` is a segment.  No normalisation (`self` handling is
/// the spec's business).
fn use_leaves<'a>(db: &'a dyn Database, u: &ast::ItemUse<'a>) -> Vec<Value> {
    fn seg<'a>(db: &'a dyn Database, n: SyntaxNode<'a>) -> String {
        n.get_text_without_trivia(db).long(db).to_string()
    }
    fn rec<'a>(db: &'a dyn Database, p: ast::UsePath<'a>, pre: &mut Vec<String>, out: &mut Vec<Value>) {
        match p {
            ast::UsePath::Leaf(l) => {
                let alias = match l.alias_clause(db) {
                    ast::OptionAliasClause::Empty(_) => String::new(),
                    ast::OptionAliasClause::AliasClause(a) => seg(db, a.alias(db).as_syntax_node()),
                };
                let mut path = pre.clone();
                path.push(seg(db, l.ident(db).as_syntax_node()));
                out.push(json!({"path": path, "alias": alias}));
            }
            ast::UsePath::Single(s) => {
                pre.push(seg(db, s.ident(db).as_syntax_node()));
                rec(db, s.use_path(db), pre, out);
                pre.pop();
            }
            ast::UsePath::Multi(m) => {
                for sub in m.use_paths(db).elements(db) {
                    rec(db, sub, pre, out);
                }
            }
            ast::UsePath::Star(_) => {
                let mut path = pre.clone();
                path.push("*".to_string());
                out.push(json!({"path": path, "alias": ""}));
            }
        }
    }
    let mut out = vec![];
    rec(db, u.use_path(db), &mut vec![], &mut out);
    out
}

pub fn streams<'a>(db: &'a dyn Database, root: &SyntaxNode<'a>) -> Streams {
    let mut w = Walker {
        db,
        elems: vec![],
        secs: vec![],
        stack: vec![],
        n_comments: 0,
        n_trailing_comments: 0,
        comment_classes: vec![],
        use_dec_end: 0,
    };
    w.walk(root);
    Streams {
        elems: w.elems,
        secs: w.secs,
        n_comments: w.n_comments,
        n_trailing_comments: w.n_trailing_comments,
        comment_classes: w.comment_classes,
    }
}

// ------------------------------------------------------------------------------------------------
// one case: parse, format, re-parse, re-format, record

pub struct CaseOutcome {
    /// "ok" | "input_diagnostics" | "panic"
    pub status: &'static str,
    pub trace: Option<Value>,
    pub out1: String,
    pub out2: String,
    pub idem: bool,
    pub parse_ok: bool,
    pub n_elems: usize,
    pub panic_msg: String,
    /// (comments, trailing comments) of the input and of the output
    pub comments: [usize; 4],
    /// comments that were on a line of their own in the input and follow a token on its line in the
    /// output ("joined"), and the converse ("detached") — triage information only
    pub comment_moves: [usize; 2],
}

/// Matches the comments of input and output by their first words (per key in order).
fn comment_moves(a: &[(String, bool)], b: &[(String, bool)]) -> [usize; 2] {
    use std::collections::HashMap;
    let mut by_key: HashMap<&str, std::collections::VecDeque<bool>> = HashMap::new();
    for (k, t) in b {
        by_key.entry(k.as_str()).or_default().push_back(*t);
    }
    let (mut joined, mut detached) = (0, 0);
    for (k, t) in a {
        if let Some(q) = by_key.get_mut(k.as_str())
            && let Some(t2) = q.pop_front()
        {
            if !*t && t2 {
                joined += 1;
            } else if *t && !t2 {
                detached += 1;
            }
        }
    }
    [joined, detached]
}

pub fn run_case(text: &str, cfg: &Value) -> CaseOutcome {
    let text = text.to_string();
    let cfg = cfg.clone();
    let r = std::panic::catch_unwind(move || run_case_inner(&text, &cfg));
    match r {
        Ok(o) => o,
        Err(e) => {
            let msg = if let Some(s) = e.downcast_ref::<String>() {
                s.clone()
            } else if let Some(s) = e.downcast_ref::<&str>() {
                s.to_string()
            } else {
                "panic".to_string()
            };
            CaseOutcome {
                status: "panic",
                trace: None,
                out1: String::new(),
                out2: String::new(),
                idem: false,
                parse_ok: false,
                n_elems: 0,
                panic_msg: msg,
                comments: [0; 4],
                comment_moves: [0; 2],
            }
        }
    }
}

fn run_case_inner(text: &str, cfg: &Value) -> CaseOutcome {
    let db = SimpleParserDatabase::default();
    let (root, diags) = db.parse_virtual_with_diagnostics(text);
    if !diags.is_empty() {
        return CaseOutcome {
            status: "input_diagnostics",
            trace: None,
            out1: String::new(),
            out2: String::new(),
            idem: true,
            parse_ok: true,
            n_elems: 0,
            panic_msg: String::new(),
            comments: [0; 4],
            comment_moves: [0; 2],
        };
    }
    let config = config_from_json(cfg);
    let out1 = get_formatted_file(&db, &root, config.clone());
    let (root1, diags1) = db.parse_virtual_with_diagnostics(&out1);
    let parse_ok = diags1.is_empty();
    let out2 = get_formatted_file(&db, &root1, config);
    let idem = out1 == out2;
    let sin = streams(&db, &root);
    let sout = streams(&db, &root1);
    let n_elems = sin.elems.len() + sout.elems.len();
    let comments = [sin.n_comments, sin.n_trailing_comments, sout.n_comments, sout.n_trailing_comments];
    let comment_moves = comment_moves(&sin.comment_classes, &sout.comment_classes);
    let trace = json!({
        "cfg": {"sort": cfg["sort"].as_bool().unwrap_or(false),
                "merge": cfg["merge"].as_bool().unwrap_or(false),
                "dup": cfg["dup"].as_bool().unwrap_or(false)},
        "in": sin.elems, "out": sout.elems, "isec": sin.secs, "osec": sout.secs,
        "idem": idem, "parse_ok": parse_ok,
    });
    CaseOutcome {
        status: "ok",
        trace: Some(trace),
        out1,
        out2,
        idem,
        parse_ok,
        n_elems,
        panic_msg: String::new(),
        comments,
        comment_moves,
    }
}

/// Does `text` parse as a module file without any parser diagnostic?
pub fn parses_clean(text: &str) -> bool {
    let text = text.to_string();
    std::panic::catch_unwind(move || {
        let db = SimpleParserDatabase::default();
        let (_, d) = db.parse_virtual_with_diagnostics(&text);
        d.is_empty()
    })
    .unwrap_or(false)
}

// ------------------------------------------------------------------------------------------------
// corpus: tagged test files

/// Splits a `//! > tag` test file into (tag, content) sections.
pub fn tagged_sections(content: &str) -> Vec<(String, String)> {
    let mut out: Vec<(String, String)> = vec![];
    let mut cur: Option<(String, String)> = None;
    for line in content.lines() {
        if let Some(tag) = line.strip_prefix("//! > ") {
            if let Some(c) = cur.take() {
                out.push(c);
            }
            if !tag.starts_with("====") {
                cur = Some((tag.trim().to_string(), String::new()));
            }
        } else if let Some((_, body)) = &mut cur {
            body.push_str(line);
            body.push('\n');
        }
    }
    if let Some(c) = cur.take() {
        out.push(c);
    }
    out
}

pub const CODE_TAGS: &[&str] =
    &["cairo_code", "module_code", "expanded_cairo_code", "generated_cairo_code", "cairo"];

// ------------------------------------------------------------------------------------------------
// layout mutators (seeded; the result is used only if it still parses without diagnostics)

/// (leading trivia text, token text, trailing trivia text) of every terminal, in order.
fn terminals(text: &str) -> Option<Vec<(String, String, String)>> {
    let db = SimpleParserDatabase::default();
    let (root, d) = db.parse_virtual_with_diagnostics(text);
    if !d.is_empty() {
        return None;
    }
    let mut out = vec![];
    for t in root.tokens(&db) {
        let ch = t.get_children(&db);
        if ch.len() != 3 {
            return None;
        }
        out.push((
            ch[0].get_text(&db).to_string(),
            ch[1].get_text(&db).to_string(),
            ch[2].get_text(&db).to_string(),
        ));
    }
    Some(out)
}

/// Comment lines contained in a trivia text.
fn comment_lines(trivia: &str) -> Vec<String> {
    trivia.lines().map(|l| l.trim()).filter(|l| l.starts_with("//")).map(|l| l.to_string()).collect()
}

fn random_ws(rng: &mut Rng, must_newline: bool) -> String {
    let r = rng.below(10);
    if must_newline || r < 3 {
        let nl = if rng.chance(1, 6) { "\n\n" } else { "\n" };
        format!("{nl}{}", " ".repeat(rng.below(13) as usize))
    } else if r < 9 {
        " ".to_string()
    } else {
        " ".repeat(1 + rng.below(4) as usize)
    }
}

/// Re-emits the file with every inter-token gap replaced: gaps that were empty stay empty,
/// comments are kept (each on its own line end), everything else is random whitespace.
pub fn mutate_rewrap(text: &str, rng: &mut Rng, inject_comments: bool) -> Option<String> {
    let ts = terminals(text)?;
    let mut out = String::new();
    let mut injected = 0;
    for (i, (lead, tok, _trail)) in ts.iter().enumerate() {
        // gap before this token = previous trailing + this leading
        let prev_trail = if i > 0 { ts[i - 1].2.as_str() } else { "" };
        let gap = format!("{prev_trail}{lead}");
        let comments = comment_lines(&gap);
        let had_ws = !gap.is_empty();
        let mut pending_nl = false;
        for (ci, c) in comments.iter().enumerate() {
            // The first comment of a previous-trailing trivia stays on the token's line sometimes.
            if i > 0 && ci == 0 && !prev_trail.trim().is_empty() && rng.chance(2, 3) {
                out.push(' ');
            } else if !out.is_empty() {
                out.push_str(&random_ws(rng, true));
            }
            out.push_str(c);
            pending_nl = true;
        }
        if inject_comments && i > 0 && !tok.is_empty() && rng.chance(1, 12) {
            injected += 1;
            if rng.chance(1, 2) {
                out.push(' ');
            } else {
                out.push_str(&random_ws(rng, true));
            }
            let long = if rng.chance(1, 4) {
                " with a rather long tail of words that will have to be wrapped at narrow widths"
            } else {
                ""
            };
            let pre = *rng.pick(&["//", "//", "///", "//!"]);
            // Doc comments in arbitrary positions are still trivia for the parser.
            out.push_str(&format!("{pre} inj{injected}{long}"));
            pending_nl = true;
        }
        if pending_nl {
            out.push_str(&random_ws(rng, true));
        } else if had_ws && i > 0 {
            out.push_str(&random_ws(rng, false));
        }
        out.push_str(tok);
    }
    if let Some((_, _, trail)) = ts.last() {
        for c in comment_lines(trail) {
            out.push('\n');
            out.push_str(&c);
        }
    }
    out.push('\n');
    Some(out)
}

/// Changes the leading whitespace of every line (comments included) to a random amount.
pub fn mutate_reindent(text: &str, rng: &mut Rng) -> Option<String> {
    let mut out = String::new();
    for line in text.lines() {
        let t = line.trim_start();
        if !t.is_empty() {
            if rng.chance(1, 10) {
                out.push('\t');
            }
            out.push_str(&" ".repeat(rng.below(17) as usize));
            out.push_str(t);
            if rng.chance(1, 8) {
                out.push_str("   ");
            }
        }
        out.push('\n');
        if rng.chance(1, 15) {
            out.push_str("\n\n\n");
        }
    }
    Some(out)
}

/// Line-length stress: identifiers are lengthened (consistently) so that many lines straddle the
/// limit; keywords-as-identifiers and macro names are left alone.
pub fn mutate_stretch(text: &str, rng: &mut Rng) -> Option<String> {
    let db = SimpleParserDatabase::default();
    let (root, d) = db.parse_virtual_with_diagnostics(text);
    if !d.is_empty() {
        return None;
    }
    let salt = rng.next_u64();
    let mut out = String::new();
    for t in root.tokens(&db) {
        let ch = t.get_children(&db);
        if ch.len() != 3 {
            return None;
        }
        out.push_str(ch[0].get_text(&db));
        let tok = ch[1].get_text(&db);
        if t.kind(&db) == SyntaxKind::TerminalIdentifier
            && !matches!(tok, "self" | "super" | "crate" | "fmt" | "skip" | "_")
        {
            // deterministic per identifier text
            let mut h = salt;
            for b in tok.bytes() {
                h = h.wrapping_mul(0x100000001b3).wrapping_add(b as u64);
            }
            let extra = match h % 5 {
                0 => 0,
                1 => 3,
                2 => 7,
                3 => 12,
                _ => 19,
            };
            out.push_str(tok);
            if extra > 0 {
                out.push('_');
                out.push_str(&"w".repeat(extra));
            }
        } else {
            out.push_str(tok);
        }
        out.push_str(ch[2].get_text(&db));
    }
    Some(out)
}

pub fn mutate(text: &str, op: &str, seed: u64) -> Option<String> {
    let mut rng = Rng::new(seed);
    match op {
        "rewrap" => mutate_rewrap(text, &mut rng, false),
        "comments" => mutate_rewrap(text, &mut rng, true),
        "reindent" => mutate_reindent(text, &mut rng),
        "stretch" => mutate_stretch(text, &mut rng),
        "oneline" => {
            // everything that can be on one line is
            let ts = terminals(text)?;
            let mut out = String::new();
            for (i, (lead, tok, _)) in ts.iter().enumerate() {
                let prev_trail = if i > 0 { ts[i - 1].2.as_str() } else { "" };
                let gap = format!("{prev_trail}{lead}");
                let comments = comment_lines(&gap);
                for c in &comments {
                    out.push(' ');
                    out.push_str(c);
                    out.push('\n');
                }
                if comments.is_empty() && !gap.is_empty() && i > 0 {
                    out.push(' ');
                }
                out.push_str(tok);
            }
            if let Some((_, _, trail)) = ts.last() {
                for c in comment_lines(trail) {
                    out.push('\n');
                    out.push_str(&c);
                }
            }
            out.push('\n');
            Some(out)
        }
        _ => None,
    }
}

// ------------------------------------------------------------------------------------------------
// FormatGeometry renderer

/// Segments of a construct: `head`, then per element `pre[i] ELEM post[i]`, separated by `sep`,
/// then `tail`.  `closer` is the token that ends the list (what follows the optional trailing
/// comma); `comma_ok` says whether a trailing separator is syntactically possible.
struct Shape {
    /// text before the list, on the list's first line (after the base indent)
    head: String,
    pre: Vec<String>,
    post: Vec<String>,
    sep: &'static str,
    /// text that closes the list and finishes the item/statement
    tail: String,
    comma_ok: bool,
    /// wrap into a function body (statement-level construct)
    in_fn: bool,
    /// extra items rendered before (e.g. a second `use` for merging)
    before: String,
}

fn ident(i: usize, w: usize) -> String {
    let c = (b'a' + (i as u8 % 26)) as char;
    let mut s = String::new();
    s.push(c);
    while s.len() < w {
        s.push(if s.len() % 7 == 6 { '_' } else { c });
    }
    if s.ends_with('_') {
        s.pop();
        s.push(c);
    }
    s
}

fn shape(construct: &str, n: usize) -> Option<Shape> {
    let e = |v: &str| (0..n).map(|_| v.to_string()).collect::<Vec<_>>();
    let s = |head: &str, pre: Vec<String>, post: Vec<String>, sep: &'static str, tail: &str, comma_ok: bool, in_fn: bool| Shape {
        head: head.to_string(),
        pre,
        post,
        sep,
        tail: tail.to_string(),
        comma_ok,
        in_fn,
        before: String::new(),
    };
    Some(match construct {
        "call" => s("let r = fcall(", e(""), e(""), ",", ");", true, true),
        "mchain" => s("let r = recv", e("."), e("()"), "", ";", false, true),
        "tuple" => s("let r = (", e(""), e(""), ",", ");", true, true),
        "farray" => s("let r = [", e(""), e(""), ",", "];", true, true),
        "slit" => s("let r = Strct {", e(""), e(": 0"), ",", "};", true, true),
        "spat" => s("let Strct {", e(""), e(""), ",", "} = s;", true, true),
        "fnsig" => s("fn foo(", e(""), e(": u8"), ",", ") -> u8 {}", true, false),
        "generic" => s("fn foo<", e(""), e(""), ",", ">() {}", true, false),
        "genargs" => s("let r = foo::<", e(""), e(""), ",", ">();", true, true),
        "binary" => {
            let mut sh = s("let r = ", e(""), e(""), "", ";", false, true);
            sh.pre = (0..n)
                .map(|i| if i == 0 { "".into() } else { ["+ ", "* ", "- ", "&& "][(i - 1) % 4].to_string() })
                .collect();
            sh
        }
        "match" => s("match x {", e(""), e(" => 0"), ",", "}", true, true),
        "uselist" => s("use m::{", e(""), e(""), ",", "};", true, false),
        "usetree" => {
            let mut sh = s("use m::{", e(""), e(""), ",", "};", true, false);
            sh.post = (0..n)
                .map(|i| match i % 3 {
                    0 => "::{q, p}".to_string(),
                    1 => "::z as y".to_string(),
                    _ => "".to_string(),
                })
                .collect();
            sh.before = "use m::zz::k;\nuse m::a::r;\nuse m::zz::k;\n".to_string();
            sh
        }
        "macro" => s("let r = array![", e(""), e(""), ",", "];", true, true),
        "letelse" => {
            // elements: pattern binding, rhs, then statements of the else block
            let mut sh = s("let Some(", e(""), e(""), "", "", false, true);
            sh.pre = (0..n)
                .map(|i| match i {
                    0 => "".into(),
                    1 => ") = ".into(),
                    2 => " else { ".into(),
                    _ => "; ".into(),
                })
                .collect::<Vec<String>>();
            sh.tail = match n {
                1 => ") = v else { return; };".into(),
                2 => " else { return; };".into(),
                _ => "; return; };".into(),
            };
            sh
        }
        "closure" => s("let r = |", e(""), e(""), ",", "| 0;", true, true),
        "ifelse" => {
            let mut sh = s("", e(""), e(" { 1 }"), "", " else { 0 };", false, true);
            sh.pre =
                (0..n).map(|i| if i == 0 { "let r = if ".to_string() } else { " else if ".to_string() }).collect();
            sh
        }
        "implhdr" => {
            let mut sh = s("impl Imp<", e(""), e(""), ",", "> of Trt<a> {}", true, false);
            sh.pre = (0..n).map(|i| if i % 2 == 1 { "+Drop<".to_string() } else { "".to_string() }).collect();
            sh.post = (0..n).map(|i| if i % 2 == 1 { ">".to_string() } else { "".to_string() }).collect();
            sh
        }
        "attr" => s("#[att(", e(""), e(""), ",", ")]\nfn foo() {}", true, false),
        _ => return None,
    })
}

/// Renders an abstract geometry case into Cairo source.
///
/// case: {construct, n, w:[class...], anchor:"flat"|"list", cpos:"none"|"before"|"after"|"trailing"|"aftercomma",
///        ci (1-based element index for before/after), clen:"s"|"l", comma:bool, lay:"flat"|"vert"}
/// width classes: 0 = short, 1 = at-limit-1, 2 = at-limit, 3 = at-limit+1.
pub fn render_geometry(case: &Value, cfg: &Value) -> Option<String> {
    let construct = case["construct"].as_str()?;
    let n = case["n"].as_u64()? as usize;
    let sh = shape(construct, n)?;
    let ml = cfg["ml"].as_u64().unwrap_or(100) as usize;
    let tab = cfg["tab"].as_u64().unwrap_or(4) as usize;
    let classes: Vec<u64> = case["w"].as_array()?.iter().map(|v| v.as_u64().unwrap_or(0)).collect();
    if classes.len() != n {
        return None;
    }
    let anchor = case["anchor"].as_str().unwrap_or("flat");
    let comma = case["comma"].as_bool().unwrap_or(false) && sh.comma_ok;
    let cpos = case["cpos"].as_str().unwrap_or("none");
    let ci = case["ci"].as_u64().unwrap_or(1) as usize;
    let clen = case["clen"].as_str().unwrap_or("s");
    let vert = case["lay"].as_str().unwrap_or("flat") == "vert";
    if cpos == "aftercomma" && !comma {
        return None;
    }
    let base = if sh.in_fn { tab } else { 0 };
    let list_indent = base + tab;
    // widths
    let mut running = if anchor == "flat" { base + sh.head.len() } else { list_indent };
    let mut elems = vec![];
    for i in 0..n {
        let sepw = if i + 1 < n || comma { sh.sep.len() } else { 0 };
        let w = if classes[i] == 0 {
            2 + (i % 2)
        } else {
            let target = (ml as i64) + (classes[i] as i64) - 2;
            let mut w = target - (running + sh.pre[i].len() + sh.post[i].len() + sepw) as i64;
            if w < 1 {
                // does not fit after what precedes it: size it for a line of its own
                w = target - (list_indent + sh.pre[i].len() + sh.post[i].len() + sepw.max(1)) as i64;
            }
            w.clamp(1, 140) as usize
        };
        elems.push(ident(i, w));
        if classes[i] == 0 {
            running += sh.pre[i].len() + w + sh.post[i].len() + sepw + 1;
        } else {
            running = list_indent;
        }
    }
    let comment = if clen == "l" {
        "// note: a fairly long remark that certainly does not fit within twenty or forty columns, and more"
    } else {
        "// c0 c1"
    };
    // text
    let ind = " ".repeat(base);
    let mut t = String::new();
    t.push_str(&sh.before);
    if sh.in_fn {
        t.push_str("fn wrap() {\n");
    }
    t.push_str(&ind);
    t.push_str(&sh.head);
    for i in 0..n {
        if cpos == "before" && ci == i + 1 {
            t.push('\n');
            t.push_str(&" ".repeat(list_indent));
            t.push_str(comment);
            t.push('\n');
            t.push_str(&" ".repeat(list_indent));
        } else if vert {
            t.push('\n');
            t.push_str(&" ".repeat(list_indent));
        } else if i > 0 && !sh.sep.is_empty() {
            t.push(' ');
        } else if i > 0 && sh.pre[i].starts_with(|c: char| c.is_alphanumeric() || c == '+' || c == '*' || c == '-' || c == '&') {
            t.push(' ');
        }
        t.push_str(&sh.pre[i]);
        t.push_str(&elems[i]);
        t.push_str(&sh.post[i]);
        let last = i + 1 == n;
        if !last || comma {
            t.push_str(sh.sep);
        }
        if cpos == "after" && ci == i + 1 && !(last && comma) {
            t.push(' ');
            t.push_str(comment);
            t.push('\n');
            t.push_str(&" ".repeat(list_indent));
        }
        if last && comma && cpos == "aftercomma" {
            t.push(' ');
            t.push_str(comment);
            t.push('\n');
            t.push_str(&ind);
        }
        if last && cpos == "after" && ci == n && comma {
            // comment between the last element's comma and the closer is "aftercomma"; here put
            // it before the comma instead: elem // c \n ,
            // (already emitted the comma above; nothing to do: treated as aftercomma)
            t.push(' ');
            t.push_str(comment);
            t.push('\n');
            t.push_str(&ind);
        }
    }
    if cpos == "trailing" {
        t.push('\n');
        t.push_str(&" ".repeat(list_indent));
        t.push_str(comment);
        t.push('\n');
        t.push_str(&ind);
    } else if vert {
        t.push('\n');
        t.push_str(&ind);
    }
    t.push_str(&sh.tail);
    t.push('\n');
    if sh.in_fn {
        t.push_str("}\n");
    }
    Some(t)
}

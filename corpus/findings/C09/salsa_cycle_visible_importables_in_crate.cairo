use crate:a::b as c;
fn f() { x.y(); }

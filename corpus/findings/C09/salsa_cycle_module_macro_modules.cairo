mod inner {
    b!();
}
use inner::*;
fn g() { f(); }

fn main() -> felt252 {
    let loop_func = |a: Array<felt252>| {
        while a.len() != 0 {
            for v in a {
                if v == 0 {
                    break;
                }

                return 7;
            }

            return 5;
        }

        8
    };
    loop_func(array![0]) + loop_func(array![1]) + loop_func(array![])
}

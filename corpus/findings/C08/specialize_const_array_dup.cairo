#[derive(Drop)]
struct Point {
    x: u32,
    y: u32,
}

#[derive(Drop)]
enum Shape {
    Dot: Point,
    Poly: Array<Point>,
    Nothing,
}

fn weight(s: @Shape) -> u32 {
    match s {
        Shape::Dot(p) => *p.x,
        Shape::Poly(ps) => {
            let mut acc = 0;
            for p in ps.span() {
                acc += *p.x;
            }
            acc
        },
        Shape::Nothing => 0,
    }
}

fn main() -> u32 {
    weight(@Shape::Poly(array![Point { x: 1, y: 2 }]))
}

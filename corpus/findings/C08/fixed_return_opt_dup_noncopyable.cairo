#[derive(Drop)]
enum Msg {
    Code: felt252,
    Data: Array<felt252>,
}
fn probe(c: felt252) -> (Msg, Msg) {
    (Msg::Code(c), Msg::Code(c))
}

#[derive(Copy, Drop)]
struct Q { f1: u32, f2: u32 }
fn main(x5: u32) -> u32 {
    let x8: Array<u32> = array![{
        let mut q = Q { f1: 2, f2: x5 };
        for _i in 0_u32..2_u32 {
            q.f1 = q.f1 + 1;
        };
        q.f1
    }];
    x8.len()
}

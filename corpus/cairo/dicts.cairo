use core::dict::{Felt252Dict, Felt252DictEntryTrait};

fn dict_counts(a: u8, b: u8, c: u8) -> u32 {
    let mut d: Felt252Dict<u32> = Default::default();
    let mut i: u8 = 0;
    while i < 12 {
        let k: felt252 = ((a.into() * i.into() + b.into()) % 5_u32).into();
        let cur = d.get(k);
        d.insert(k, cur + c.into() + 1);
        i += 1;
    }
    d.get(0) + 2 * d.get(1) + 3 * d.get(4)
}

fn dict_entry(a: felt252, v: u64) -> u64 {
    let mut d: Felt252Dict<u64> = Default::default();
    d.insert(a, v);
    d.insert(a + 1, v / 2);
    let (entry, prev) = d.entry(a);
    let mut d = entry.finalize(prev / 3);
    d.get(a) + d.get(a + 1) + d.get(a + 2)
}

fn dict_squash_explicit(n: u8) -> u8 {
    let mut d: Felt252Dict<u8> = Default::default();
    let mut i: u8 = 0;
    while i < n % 9 {
        d.insert(i.into(), i);
        d.insert(0, i);
        i += 1;
    }
    let r = d.get(0);
    let _sq = d.squash();
    r
}

// dictionaries whose key set is decided by an argument: one distinct key, two adjacent keys, a key and zero
fn dict_single_key(k: felt252, v: u8) -> u8 {
    let mut d: Felt252Dict<u8> = Default::default();
    d.insert(k, v);
    let r = d.get(k);
    d.insert(k, r / 2);
    d.get(k) + r
}

fn dict_adjacent_keys(k: felt252, v: u8) -> u8 {
    let mut d: Felt252Dict<u8> = Default::default();
    d.insert(k, v);
    d.insert(k + 1, v / 2);
    d.get(k) / 2 + d.get(k + 1)
}

fn dict_key_and_zero(k: felt252, v: u8) -> u8 {
    let mut d: Felt252Dict<u8> = Default::default();
    d.insert(0, 1);
    d.insert(k, v);
    d.get(k) / 2 + d.get(0)
}

#[derive(Copy, Drop, PartialEq, Serde)]
struct Point {
    x: u32,
    y: u32,
}

#[derive(Copy, Drop, PartialEq, Serde)]
enum Shape {
    Dot: Point,
    Line: (Point, Point),
    Empty,
}

fn mk(a: u32, b: u32) -> Shape {
    if a == b {
        Shape::Empty
    } else if a < b {
        Shape::Dot(Point { x: a, y: b })
    } else {
        Shape::Line((Point { x: a, y: b }, Point { x: b, y: a }))
    }
}

fn area(a: u32, b: u32) -> u64 {
    match mk(a, b) {
        Shape::Dot(p) => p.x.into() + p.y.into(),
        Shape::Line((p, q)) => {
            let dx: u64 = if p.x > q.x { (p.x - q.x).into() } else { (q.x - p.x).into() };
            let dy: u64 = if p.y > q.y { (p.y - q.y).into() } else { (q.y - p.y).into() };
            dx * dy
        },
        Shape::Empty => 0,
    }
}

fn serde_roundtrip(a: u32, b: u32) -> felt252 {
    let s = mk(a, b);
    let mut out: Array<felt252> = array![];
    s.serialize(ref out);
    let mut sp = out.span();
    let back: Shape = Serde::deserialize(ref sp).unwrap();
    if back == s {
        out.len().into()
    } else {
        999
    }
}

fn option_chain(a: u8, b: u8) -> u8 {
    let x: Option<u8> = if a > 100 { Option::None } else { Option::Some(a) };
    let y: Result<u8, felt252> = if b == 0 { Result::Err('zero') } else { Result::Ok(b) };
    match (x, y) {
        (Option::Some(p), Result::Ok(q)) => p / q,
        (Option::Some(p), Result::Err(_)) => p,
        (Option::None, Result::Ok(q)) => q,
        (Option::None, Result::Err(_)) => 0,
    }
}

use core::pedersen::pedersen;
use core::poseidon::poseidon_hash_span;
use core::hash::{HashStateTrait, HashStateExTrait};
use core::poseidon::PoseidonTrait;

fn ped(a: felt252, b: felt252) -> felt252 {
    pedersen(pedersen(a, b), a)
}

fn pos(a: felt252, n: u8) -> felt252 {
    let mut arr: Array<felt252> = array![];
    let mut i: u8 = 0;
    while i < n % 7 {
        arr.append(a + i.into());
        i += 1;
    }
    poseidon_hash_span(arr.span())
}

fn pos_state(a: felt252, b: u64) -> felt252 {
    PoseidonTrait::new().update(a).update_with(b).finalize()
}

fn bits(a: u128, b: u128) -> u128 {
    (a & b) | ((a ^ b) & 0xff00ff00) | (~a & 0xf)
}

fn u64_bits(a: u64, b: u64) -> u64 {
    (a & b) ^ (a | b)
}

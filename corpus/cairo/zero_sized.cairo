// Degenerate operand class: zero-sized values (unit, empty structs, tuples of them) through the generic
// libfuncs (box, nullable, snapshot, enum, dup/drop, store_temp/local) - as constants and as
// run-time values - with ap-relative temporaries kept alive across the calls.
use core::nullable::{NullableTrait, match_nullable, FromNullableResult};

#[derive(Copy, Drop)]
struct Empty {}

#[derive(Copy, Drop)]
struct Wrap {
    e: Empty,
    u: (),
}

#[inline(never)]
fn unit_box_const() -> Box<()> {
    BoxTrait::new(())
}

#[inline(never)]
fn empty_box_const() -> Box<(Empty, (), Empty)> {
    BoxTrait::new((Empty {}, (), Empty {}))
}

#[inline(never)]
fn felt_box_const() -> Box<felt252> {
    BoxTrait::new(7)
}

#[inline(never)]
fn unit_box_runtime(w: Wrap) -> Box<Wrap> {
    BoxTrait::new(w)
}

#[inline(never)]
fn unit_nullable(flag: bool) -> Nullable<()> {
    if flag {
        NullableTrait::new(())
    } else {
        Default::default()
    }
}

#[inline(never)]
fn opt_unit(flag: bool) -> Option<()> {
    if flag {
        Some(())
    } else {
        None
    }
}

// keeps an ap-relative temporary alive across calls that box zero-sized constants
fn zs_box_const(x: felt252) -> felt252 {
    let f = felt_box_const();
    let _u = unit_box_const();
    let a = x * x;
    let _e = empty_box_const();
    a + x + f.unbox()
}

fn zs_box_runtime(x: felt252) -> felt252 {
    let f = felt_box_const();
    let w = Wrap { e: Empty {}, u: () };
    let b = unit_box_runtime(w);
    let a = x * 3;
    let Wrap { e: _, u: _ } = b.unbox();
    a + f.unbox()
}

fn zs_nullable(x: felt252, flag: bool) -> felt252 {
    let f = felt_box_const();
    let n = unit_nullable(flag);
    let a = x + 1;
    let r = match match_nullable(n) {
        FromNullableResult::Null => 10,
        FromNullableResult::NotNull(b) => {
            let () = b.unbox();
            20
        },
    };
    a * r + f.unbox()
}

fn zs_option(x: felt252, flag: bool) -> felt252 {
    let f = felt_box_const();
    let o = opt_unit(flag);
    let y = x - 1;
    let snap = @o;
    let k = match snap {
        Some(_) => 5,
        None => 6,
    };
    let k2 = match o {
        Some(()) => 50,
        None => 60,
    };
    y * k + k2 + f.unbox()
}

fn zs_tuple_flow(x: felt252, flag: bool) -> felt252 {
    let f = felt_box_const();
    let t: ((), Empty, ()) = ((), Empty {}, ());
    let u = if flag {
        t
    } else {
        ((), Empty {}, ())
    };
    let ((), _e, ()) = u;
    let b = BoxTrait::new(t);
    let y = x * x + 2;
    let ((), _e2, ()) = b.unbox();
    y + f.unbox()
}

fn fact(n: u8) -> u128 {
    if n == 0 {
        1
    } else {
        n.into() * fact(n - 1)
    }
}

fn fib_rec(n: u8) -> u64 {
    if n % 16 < 2 {
        (n % 16).into()
    } else {
        fib_rec(n % 16 - 1) + fib_rec(n % 16 - 2)
    }
}

fn is_even(n: u16) -> bool {
    if n % 64 == 0 {
        true
    } else {
        is_odd(n % 64 - 1)
    }
}

fn is_odd(n: u16) -> bool {
    if n % 64 == 0 {
        false
    } else {
        is_even(n % 64 - 1)
    }
}

fn parity(n: u16) -> felt252 {
    if is_even(n) {
        10
    } else {
        20
    }
}

fn ackermann_small(m: u8, n: u8) -> u32 {
    ack((m % 3).into(), (n % 4).into())
}

fn ack(m: u32, n: u32) -> u32 {
    if m == 0 {
        n + 1
    } else if n == 0 {
        ack(m - 1, 1)
    } else {
        ack(m - 1, ack(m, n - 1))
    }
}

use core::box::BoxTrait;
use core::nullable::{NullableTrait, match_nullable, FromNullableResult};

fn boxed(a: u128, b: u128) -> u128 {
    let x = BoxTrait::new((a, b));
    let (p, q) = x.unbox();
    let y = BoxTrait::new(p ^ q);
    y.unbox() | 1
}

fn nullable(a: u32) -> u32 {
    let n: Nullable<u32> = if a % 2 == 0 { NullableTrait::new(a) } else { Default::default() };
    match match_nullable(n) {
        FromNullableResult::Null => 17,
        FromNullableResult::NotNull(b) => b.unbox() / 2,
    }
}

fn snapshots(a: u64) -> u64 {
    let arr = array![a, a / 2, 3];
    let snap = @arr;
    let l: u64 = snap.len().into();
    let first = *snap.at(0);
    first % 1000 + l
}

fn byte_array(a: u8) -> u32 {
    let mut s: ByteArray = "hello";
    let mut i: u8 = 0;
    while i < a % 40 {
        s.append_byte(i + 48);
        i += 1;
    }
    s.len()
}

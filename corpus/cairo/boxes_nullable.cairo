use core::box::BoxTrait;
use core::nullable::{NullableTrait, match_nullable, FromNullableResult};

fn boxed(a: u128, b: u128) -> u128 {
    let x = BoxTrait::new((a, b));
    let (p, q) = x.unbox();
    let y = BoxTrait::new(p ^ q);
    y.unbox() | 1
}

fn nullable(a: u32) -> u32 {
    let n: Nullable<u32> = if a % 2 == 0 { NullableTrait::new(a) } else { Default::default() };
    match match_nullable(n) {
        FromNullableResult::Null => 17,
        FromNullableResult::NotNull(b) => b.unbox() / 2,
    }
}

fn snapshots(a: u64) -> u64 {
    let arr = array![a, a / 2, 3];
    let snap = @arr;
    let l: u64 = snap.len().into();
    let first = *snap.at(0);
    first % 1000 + l
}

fn byte_array(a: u8) -> u32 {
    let mut s: ByteArray = "hello";
    let mut i: u8 = 0;
    while i < a % 40 {
        s.append_byte(i + 48);
        i += 1;
    }
    s.len()
}

// match directly on a boxed enum (enum_boxed_match) with a temporary alive across the match
#[inline(never)]
fn ident_bn(x: felt252) -> felt252 {
    x
}

#[inline(never)]
fn pick_boxed(b: Box<Option<felt252>>, x: felt252) -> felt252 {
    let t = ident_bn(x);
    match b {
        Some(v) => v.unbox() + t,
        None => t,
    }
}

#[derive(Drop)]
enum ThreeBn {
    A: felt252,
    B: felt252,
    C,
}

#[inline(never)]
fn pick_boxed3(b: Box<ThreeBn>, x: felt252) -> felt252 {
    let t = ident_bn(x);
    match b {
        ThreeBn::A(v) => v.unbox() + t,
        ThreeBn::B(v) => v.unbox() + 2 * t,
        ThreeBn::C => t,
    }
}

fn boxed_enum_match(flag: u8, x: felt252) -> felt252 {
    let b: Box<Option<felt252>> = if flag % 2 == 0 {
        BoxTrait::new(Option::None)
    } else {
        BoxTrait::new(Option::Some(100))
    };
    let c: Box<ThreeBn> = if flag % 3 == 0 {
        BoxTrait::new(ThreeBn::A(5))
    } else if flag % 3 == 1 {
        BoxTrait::new(ThreeBn::B(7))
    } else {
        BoxTrait::new(ThreeBn::C)
    };
    pick_boxed(b, x) * 1000 + pick_boxed3(c, x + 1)
}

// Array building, iteration, indexing, panics on out-of-bounds.
fn sum_to(n: u32) -> u32 {
    let mut i: u32 = 0;
    let mut s: u32 = 0;
    while i < n % 40 {
        s += i * 3;
        i += 1;
    }
    s
}

fn build_and_index(n: u8, k: u8) -> felt252 {
    let mut arr: Array<felt252> = array![];
    let mut i: u8 = 0;
    loop {
        if i >= n % 20 {
            break;
        }
        arr.append(i.into() * 7 + 1);
        i += 1;
    }
    let idx: u32 = k.into();
    *arr.at(idx)
}

fn span_pop(n: u16) -> u16 {
    let mut arr: Array<u16> = array![n, n / 2, n / 3, 7];
    let mut sp = arr.span();
    let mut acc: u16 = 0;
    loop {
        match sp.pop_front() {
            Option::Some(x) => { acc = acc / 2 + *x / 2; },
            Option::None => { break; },
        }
    }
    acc
}

fn nested_loops(a: u8, b: u8) -> u32 {
    let mut total: u32 = 0;
    let mut i: u8 = 0;
    while i < a % 6 {
        let mut j: u8 = 0;
        while j < b % 6 {
            if (i + j) % 3 == 0 {
                total += 5;
            } else {
                total += (i * j).into();
            }
            j += 1;
        }
        i += 1;
    }
    total
}

fn early_return(a: u32, b: u32) -> u32 {
    if a == 0 {
        return b;
    }
    let mut i: u32 = 0;
    let mut acc: u32 = a % 1000;
    loop {
        if i == 10 {
            break acc;
        }
        if acc > 50000 {
            return i;
        }
        acc = acc * 3 + b % 7;
        i += 1;
    }
}

fn match_num(a: u8) -> felt252 {
    match a % 8 {
        0 => 'zero',
        1 => 'one',
        2 | 3 => 'twothree',
        4 => 'four',
        _ => 'many',
    }
}

fn assert_path(a: u64, b: u64) -> u64 {
    assert(a != b, 'equal');
    assert!(a < 1000000 || b < 1000000, "both large");
    if a > b { a - b } else { b - a }
}

fn locals_across_calls(a: felt252, b: felt252) -> felt252 {
    let x = helper(a, 3);
    let y = helper(b, x.try_into().unwrap_or(2));
    let z = helper(a + b, 1);
    x + y * 2 + z * 3 + a
}

fn helper(v: felt252, n: u8) -> felt252 {
    let mut i: u8 = 0;
    let mut acc = v;
    while i < n % 5 {
        acc = acc * 2 + 1;
        i += 1;
    }
    if acc == 0 { 5 } else { acc }
}

fn bool_logic(a: u8, b: u8) -> bool {
    (a > 3 && b < 200) || (a == b) || !(a < b)
}

use core::num::traits::{OverflowingAdd, OverflowingSub, WrappingAdd, WrappingMul, CheckedAdd, CheckedSub, CheckedMul, WideMul, Sqrt};

fn u8_mix(a: u8, b: u8) -> u8 {
    let (s, o) = a.overflowing_add(b);
    let w = a.wrapping_mul(b);
    let c = match a.checked_sub(b) {
        Option::Some(x) => x,
        Option::None => 7,
    };
    if o { s ^ w ^ c } else { (s | w) & (c + 0) }
}

fn u128_div(a: u128, b: u128) -> u128 {
    if b == 0 {
        a
    } else {
        a / b + a % b
    }
}

fn u256_ops(a: u128, b: u128) -> u128 {
    let x = u256 { low: a, high: b };
    let y = u256 { low: b, high: 0 };
    let z = if y == 0 { x } else { x / y + x % y };
    let w = x.wide_mul(y);
    z.low ^ z.high ^ w.limb0 ^ w.limb3
}

fn i32_ops(a: i32, b: i32) -> i32 {
    let q = if b == 0 { 1 } else if a == -2147483648 && b == -1 { 2 } else { a / b };
    let r = if b == 0 { 1 } else if a == -2147483648 && b == -1 { 2 } else { a % b };
    match q.checked_add(r) {
        Option::Some(x) => x,
        Option::None => 0,
    }
}

fn sqrt_mix(a: u64, b: u128) -> u64 {
    let s: u32 = a.sqrt();
    let t: u64 = b.sqrt();
    s.into() + t % 1000
}

fn checked_panics(a: u16, b: u16) -> u16 {
    a + b - 1
}

fn felt_ops(a: felt252, b: felt252) -> felt252 {
    let c = a * b + a - b;
    if c == 0 { 1 } else { c * c }
}

fn casts(a: u64) -> u8 {
    let x: Option<u8> = a.try_into();
    let y: Option<u16> = (a / 3).try_into();
    match (x, y) {
        (Option::Some(p), _) => p,
        (Option::None, Option::Some(q)) => (q % 256).try_into().unwrap(),
        (Option::None, Option::None) => 0,
    }
}

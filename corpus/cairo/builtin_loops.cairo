// Gas-metered recursions / loops that use one builtin kind each: the gas for the builtin uses comes from
// withdraw_gas at run time (the builtin price table), not from the entry cost.
use core::ec::{EcPointTrait, EcStateTrait, NonZeroEcPoint};
use core::poseidon::hades_permutation;

fn loop_bitwise(n: u8, seed: u64) -> u64 {
    let mut acc: u64 = seed;
    let mut i: u8 = 0;
    while i < n % 40 {
        acc = (acc & 0xff00ff00ff) ^ (acc | i.into());
        i += 1;
    }
    acc
}

fn loop_pedersen(n: u8, seed: felt252) -> felt252 {
    let mut acc = seed;
    let mut i: u8 = 0;
    while i < n % 30 {
        acc = core::pedersen::pedersen(acc, i.into());
        i += 1;
    }
    acc
}

fn loop_poseidon(n: u8, seed: felt252) -> felt252 {
    let mut acc = seed;
    let mut i: u8 = 0;
    while i < n % 30 {
        let (a, _, _) = hades_permutation(acc, i.into(), 2);
        acc = a;
        i += 1;
    }
    acc
}

fn rec_ec(n: u8, m: felt252) -> felt252 {
    let g: NonZeroEcPoint = EcPointTrait::new_nz(
        0x1ef15c18599971b7beced415a40f0c7deacfd9b0d1819e03d723d8bc943cfca,
        0x5668060aa49730b7be4801df46ec62de53ecd11abe43a32873000c36e8dc1f,
    )
        .unwrap();
    rec_ec_inner(n % 12, m, g)
}

fn rec_ec_inner(n: u8, m: felt252, g: NonZeroEcPoint) -> felt252 {
    if n == 0 {
        return m;
    }
    let mut st = EcStateTrait::init();
    st.add_mul(m + 1, g);
    let r = match st.finalize_nz() {
        Some(p) => {
            let (x, _y) = p.coordinates();
            x
        },
        None => 0,
    };
    rec_ec_inner(n - 1, r, g)
}

fn loop_mixed(n: u8, seed: u128) -> felt252 {
    let mut acc: u128 = seed;
    let mut h: felt252 = 0;
    let mut i: u8 = 0;
    while i < n % 20 {
        acc = (acc ^ 0x5555) & 0xffffffffffff;
        h = core::pedersen::pedersen(h, acc.into());
        let (a, _, _) = hades_permutation(h, 1, 2);
        h = a;
        i += 1;
    }
    h
}
